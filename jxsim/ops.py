"""Lifecycle operations: each is applied to RefModule (prediction) and to jaxley (real code) in lock-step.

apply_op(world, op, index) -> outcome dict {"outcome": accept|reject|unspec|..., ...}
Violations are recorded on the world.  An operation whose predicted outcome is 'unspecified' stops the
interpretation of the history (world.stopped) — nothing after it is asserted."""
import numpy as np

from . import env

env.setup()
import jax.numpy as jnp  # noqa: E402
from jaxley.connect import connect as jx_connect  # noqa: E402

from . import mech, snap  # noqa: E402
from .driver import HarnessError, conform, exc_in_harness, exc_text, feq, innermost_jaxley_frame, quiet, tracer_leak  # noqa: E402
from .invariants import structural_invariants  # noqa: E402
from .refmodule import Reject, Unspec, isnan  # noqa: E402
from .seedtree import uval  # noqa: E402


def stim_rows(op, k_targets):
    """Sample rows of a stimulate / clamp op: returns list of rows (1 row = broadcast)."""
    L = int(op["len"])
    key = op.get("state", "i")
    if key == "i":
        lo, hi = -0.05, 0.1
    elif key == "v":
        lo, hi = -75.0, -45.0
    else:
        lo, hi = 0.05, 0.95
    nrows = k_targets if op.get("two_d") else 1
    rows = []
    for r in range(nrows):
        row = [uval(op["seed"], f"ext{r}", j, lo, hi) for j in range(L)]
        if op.get("zero_from") is not None:
            row = [x if j < op["zero_from"] else 0.0 for j, x in enumerate(row)]
        if op.get("pattern") == "step":
            Lp = int(op.get("pattern_len", L))
            a, b = sorted([op["seed"] % max(Lp, 1), (op["seed"] // 7) % max(Lp, 1)])
            row = [x if a <= j <= b else 0.0 for j, x in enumerate(row)]
        if op.get("ints"):
            row = [float(round(x)) for x in row]  # handed over as an integer-typed array (e.g. a placeholder of zeros)
        rows.append(row)
    return rows


def _plan(w, op):
    """Phase 1+2: resolve against the model, apply the prediction to w.ref.  Returns (do, info) where do()
    performs the real call.  Raises Reject (with .do set when the real call can still be issued) / Unspec."""
    kind = op["op"]
    ref = w.ref
    info = {}

    def with_view(vspec):
        try:
            rv, thunk, calls = w.resolve_view(vspec)
        except Reject as e:
            th = getattr(e, "thunk", None)
            if th is not None:
                e.do = lambda: th()  # building the view must already raise
            raise
        info["view"] = calls
        info["rows"] = list(rv.N)
        return rv, thunk

    if kind == "make_handle":
        rv, thunk = with_view(op["view"])
        h = {"N": list(rv.N), "E": list(rv.E), "scope": rv.scope, "nctrl": dict(rv.nctrl), "ectrl": dict(rv.ectrl), "kind": rv.kind,
             "syn_local": dict(rv.syn_local) if rv.syn_local else None, "epoch": w.epoch, "io_epoch": w.io_epoch, "view": None}
        w.handles[op["id"]] = h

        def do():
            h["view"] = thunk()

        return do, info

    if op.get("view") and op["view"][0][0] == "handle":
        # restrictions that keep a handle-based call inside the documented behaviour of views-as-snapshots
        h = w.handles.get(op["view"][0][1])
        if kind in ("delete_recordings", "delete_stimuli", "delete_clamps") and (h is None or h["io_epoch"] != w.io_epoch):
            raise Unspec("delete through a handle created before the recordings / inputs changed")
        if kind == "set" and op["key"] not in ("radius", "length", "axial_resistivity", "capacitance", "v"):
            raise Unspec("handle-based set of a mechanism column")
        if kind in ("record", "clamp") and op.get("state", "v") != "v":
            raise Unspec("handle-based record / clamp of a mechanism state")
        if kind == "make_trainable" and not (op["key"] in ("radius", "length", "axial_resistivity", "capacitance") and op.get("init") == "float"):
            # a handle shows the tables as they were when it was made: only columns that always exist, and an explicit
            # initial value (not the mean of possibly outdated table values), keep the call inside documented behaviour
            raise Unspec("handle-based make_trainable of a mechanism column or with a table-derived initial value")
        if kind in ("insert", "delete_channel", "set_ncomp"):
            raise Unspec("handle-based structural call")

    if kind == "set":
        rv, thunk = with_view(op["view"])
        key = op["key"]
        default, is_state = w.key_default(key)
        if key in ref.cols:
            k = len([n for n in rv.N if not isnan(ref.cols[key][n])])
        elif key in ref.edge_columns():
            k = len([e for e in rv.E if not isnan(ref.edges[e]["vals"].get(key))])
        else:
            k = 0
        val = w.values_for(key, op["val"], k, default, is_state)
        info["val"] = val

        def do():
            thunk().set(key, np.asarray(val) if isinstance(val, list) else val)

        try:
            if isinstance(val, list) and k == 0:
                raise Unspec("array set on zero rows")
            ref.set(rv, key, val)
        except Reject as e:
            e.do = do
            raise
        return do, info

    if kind == "insert":
        rv, thunk = with_view(op["view"])
        ch = mech.chan_desc(op["cls"], op.get("name"))
        adopt = ref.insert(rv, ch)
        info["adopt"] = len(adopt)

        def do():
            thunk().insert(mech.make_channel(op["cls"], op.get("name")))
            for col, row, default in adopt:
                got = w.m.nodes.loc[row, col]
                got = None if got != got else float(got)
                old = ref.cols[col][row]
                if not (feq(got, old, 0.0) or feq(got, default, 0.0)):
                    w.violate("tables_conform", f"insert({ch['name']}): nodes[{col}][{row}] = {got}, expected the previous value {old} or the default {default}", w.op_index)
                ref.cols[col][row] = got

        return do, info

    if kind == "delete_channel":
        rv, thunk = with_view(op["view"])
        name = op.get("name") or op["cls"]

        def do():
            thunk().delete_channel(mech.make_channel(op["cls"], op.get("name")))

        try:
            if name in ref.chans and ref.chans[name]["cls"] != op["cls"]:
                raise Unspec("name registered for another class")
            ref.delete_channel(rv, name)
        except Reject as e:
            e.do = do
            raise
        return do, info

    if kind == "set_ncomp":
        nb = len(ref.ncomp_per_branch)
        b = op["branch"] % nb
        info["branch"] = b
        vs_ = [["branch", {"t": "int", "v": b}]] if ref.kind != "branch" else []
        if op.get("odd") == "part":      # some compartments of the branch only (the whole branch if it has one compartment)
            vs_ = vs_ + [["comp", {"t": "int", "v": 0}]]
        elif op.get("odd") == "multi" and ref.kind != "branch":  # two branches at once
            vs_ = [["branch", {"t": "list", "v": [b, (b + 1) % nb]}]]
        rv, thunk = with_view(vs_)
        n = int(op["n"])
        model_accepts = [True]

        def do():
            if op.get("min_radius") is not None:
                thunk().set_ncomp(n, min_radius=op["min_radius"])
            else:
                thunk().set_ncomp(n)
            if ref.swc and model_accepts[0]:
                # radius profile of an SWC branch: adopted from a direct read (checked by the C13 scenario)
                start = sum(ref.ncomp_per_branch[:b])
                for j in range(n):
                    ref.cols["radius"][start + j] = float(w.m.nodes.loc[start + j, "radius"])

        try:
            ref.set_ncomp(rv, n)
        except Reject as e:
            model_accepts[0] = False
            e.do = do
            raise
        return do, info

    if kind == "group":
        rv, thunk = with_view(op["view"])
        ref.add_to_group(rv, op["name"])
        return (lambda: thunk().add_to_group(op["name"])), info

    if kind == "record":
        rv, thunk = with_view(op["view"])
        do = lambda: thunk().record(op["state"], verbose=False)
        try:
            info["added"] = ref.record(rv, op["state"])
        except Reject as e:
            e.do = do
            raise
        return do, info

    if kind == "delete_recordings":
        rv, thunk = with_view(op["view"])
        ref.delete_recordings(rv)
        return (lambda: thunk().delete_recordings()), info

    if kind in ("stimulate", "clamp"):
        rv, thunk = with_view(op["view"])
        key = "i" if kind == "stimulate" else op["state"]
        cs = ref.view_comp_states(rv)
        ktargets = len(rv.N) if key in cs else len(rv.E)
        rows = stim_rows(dict(op, state=key), ktargets)
        if op.get("bad_batch"):
            rows = rows[:1] * (ktargets + 1)
        arr = np.asarray(rows[0] if (len(rows) == 1 and not op.get("two_d")) else rows, dtype=float)
        if op.get("ints"):
            arr = arr.astype(np.int32)
        info["shape"] = list(arr.shape)

        def do():
            v = thunk()
            if kind == "stimulate":
                v.stimulate(jnp.asarray(arr), verbose=False)
            else:
                v.clamp(key, jnp.asarray(arr), verbose=False)

        try:
            ref.external(rv, key, rows)
        except Reject as e:
            e.do = do
            raise
        return do, info

    if kind in ("delete_stimuli", "delete_clamps"):
        rv, thunk = with_view(op["view"])
        key = "i" if kind == "delete_stimuli" else op.get("state")
        ref.delete_external(rv, key)

        def do():
            v = thunk()
            if kind == "delete_stimuli":
                v.delete_stimuli()
            elif key is None:
                v.delete_clamps()
            else:
                v.delete_clamps(key)

        return do, info

    if kind == "make_trainable":
        rv, thunk = with_view(op["view"])
        key = op["key"]
        init = op.get("init")
        default, is_state = w.key_default(key)
        lo, hi = mech.value_range(key, default, is_state)
        if init == "float":
            init_v = uval(op["seed"], key + "init", 0, lo, hi)
        elif init == "zero":
            # a switched-off conductance / a state of exactly zero is a value like any other; geometry, capacitance and
            # axial resistivity must stay positive (the properties quantify over positive parameter settings)
            positive_only = key in ("radius", "length", "axial_resistivity", "capacitance") or key.endswith(("taumax", "k_minus", "slope"))
            init_v = uval(op["seed"], key + "init", 0, lo, hi) if positive_only else 0.0
        elif init in ("list", "badlist"):
            # number of groups known only after grouping: compute from a dry run on a clone
            dry = ref.clone()
            try:
                ng = dry.make_trainable(_rebind(rv, dry), key, None)
            except (Reject, Unspec):
                ng = 1
            init_v = [uval(op["seed"], key + "init", j, lo, hi) for j in range(ng + (1 if init == "badlist" else 0))]
        else:
            init_v = None
        info["init"] = init_v
        do = lambda: thunk().make_trainable(key, init_v, verbose=False)
        try:
            info["ngroups"] = ref.make_trainable(rv, key, init_v)
        except Reject as e:
            e.do = do
            raise
        return do, info

    if kind == "delete_trainables":
        rv, thunk = with_view(op.get("view", []))
        ref.delete_trainables(rv)
        return (lambda: thunk().delete_trainables()), info

    if kind == "connect":
        if ref.kind != "network":
            raise Unspec("connect outside a network")
        a = op["pre"] % ref.n
        b = op["post"] % ref.n
        info["pre"], info["post"] = a, b
        # "pre_k" / "post_k": views of several consecutive compartments (vectorised connect: synapse j links the j-th
        # compartment of each view); different lengths are a reject fault
        pa = sorted({(a + j) % ref.n for j in range(int(op.get("pre_k", 1)))})
        pb = sorted({(b + j) % ref.n for j in range(int(op.get("post_k", 1)))})
        syn = mech.syn_desc(op["cls"], op.get("name"))

        def do():
            jx_connect(w.m.select(nodes=pa), w.m.select(nodes=pb), mech.make_synapse(op["cls"], op.get("name")))

        try:
            ref.connect(pa, pb, syn)
        except Reject as e:
            e.do = do
            raise
        return do, info

    if kind == "init_states":
        def do():
            w.m.init_states()
            nd = w.m.nodes
            for name, c in ref.chans.items():
                for col in c["states"]:
                    for n in range(ref.n):
                        if ref.flags[name][n]:
                            got = float(nd.loc[n, col])
                            if not (got == got) or got < -1e-9 or got > 1 + 1e-9:
                                w.bump("init_state_outside_unit_interval")
                            ref.cols[col][n] = got

        return do, info

    if kind == "move":
        rv, thunk = with_view(op["view"])
        x, y, z = op["xyz"]
        return (lambda: thunk().move(x, y, z)), info

    raise HarnessError(f"unknown op {kind}")


def _rebind(rv, ref):
    from .refmodule import RV

    return RV(ref, rv.N, rv.E, rv.scope, rv.nctrl, rv.ectrl, rv.kind, rv.syn_local)


def apply_op(w, op, index, check=True):
    """Returns outcome dict.  `check=False` skips the (costly) conformance comparison."""
    w.op_index = index
    ref_before = w.ref.clone()
    expect = "accept"
    do = None
    info = {}
    try:
        do, info = _plan(w, op)
    except Reject as e:
        expect = "reject"
        w.ref = ref_before
        do = getattr(e, "do", None)
        info = {"reject_reason": str(e)}
    except Unspec as e:
        w.ref = ref_before
        w.stopped = f"op {index} ({op['op']}): {e}"
        w.bump("unspecified_stop")
        w.chain.add("unspec", {"op": op})
        return {"outcome": "unspec", "why": str(e)}
    before = snap.snapshot(w.m, with_xyzr=False) if (expect == "reject" or op["op"] == "move") else None
    if op["op"] == "move" and all(np.isnan(np.asarray(x, dtype=float)[:, :3]).all() for x in w.m.xyzr):
        # hand-built modules have no coordinates until the session computes them (as it must before vis()); without
        # them every displacement is NaN + x and the checks below would be vacuous
        try:
            with quiet():
                w.m.compute_xyz()
            w.bump("probe_compute_xyz_before_move")
        except Exception:  # noqa: BLE001  (no coordinates then; the move is still confined-checked)
            w.bump("probe_compute_xyz_failed")
    xyzr_before = [np.array(x, copy=True) for x in w.m.xyzr] if op["op"] == "move" else None
    raised = None
    if do is not None:
        try:
            with quiet():
                do()
        except (HarnessError,):
            raise
        except Exception as e:  # noqa: BLE001
            if exc_in_harness(e):
                raise HarnessError(f"op {index} {op}: {type(e).__name__}: {e}") from e
            raised = e
    else:
        raised = Reject("view could not be built")
    out = {"op": op["op"], "expect": expect, **{k: v for k, v in info.items() if k in ("view", "rows", "reject_reason", "branch", "pre", "post", "ngroups", "added")}}
    if expect == "reject":
        if raised is None:
            w.ref = ref_before
            w.stopped = f"op {index} ({op['op']}): predicted rejection ({info.get('reject_reason')}) was accepted"
            w.bump("reject_not_raised")
            out["outcome"] = "reject_not_raised"
            # the library may accept more than the model does — but whatever it accepts has to leave the tables mutually
            # consistent (model-independent invariants; C19 speaks of every *accepted* call on arbitrary views)
            d2 = [x for x in structural_invariants(w.m) if op["op"] == "delete_channel" or not x.startswith("dangling:")]
            if d2:
                w.violate("structural_invariant", f"{op['op']} ({info.get('reject_reason')}) was accepted and left: " + "; ".join(d2[:4]), index,
                          {"after_accepted_call_outside_model": True,
                           "dangling_after_delete_channel": op["op"] == "delete_channel" and any(x.startswith("dangling:") for x in d2)})
        else:
            after = snap.snapshot(w.m, with_xyzr=False)
            if after != before:
                # Nothing is asserted about *what* a refused call leaves behind (the properties speak of accepted
                # sequences) — except mutual consistency of the tables, which is model-independent: a refused call
                # that leaves the module inconsistent breaks every later accepted call.
                w.stopped = f"op {index}: rejected call changed the tables"
                w.bump("non_atomic_reject")
                out["outcome"] = "non_atomic_reject"
                d2 = [x for x in structural_invariants(w.m) if not x.startswith("dangling:")]
                if d2:
                    w.violate("structural_invariant", f"after a refused {op['op']} ({type(raised).__name__}): " + "; ".join(d2[:4]), index,
                              {"after_refused_call": True})
            else:
                w.bump("fault_reject")
                out["outcome"] = "rejected"
                out["exc"] = type(raised).__name__
    else:
        if raised is not None:
            w.ref = ref_before
            fr = innermost_jaxley_frame(raised)
            leak = tracer_leak(w.m)
            w.violate("unexpected_refusal", f"{op['op']} raised {exc_text(raised)}", index,
                      {"exc": type(raised).__name__, "frame": fr[2] if fr else None, "leaked_tracer_in_jaxedges": leak,
                       "signature_ok": bool(leak and type(raised).__name__ == "UnexpectedTracerError" and fr and fr[2] == "_jax_arrays_in_view")})
            w.stopped = f"op {index}: unexpected refusal"
            out["outcome"] = "unexpected_refusal"
        else:
            out["outcome"] = "accepted"
            if op["op"] in ("set_ncomp",):
                w.epoch += 1
            if op["op"] in ("record", "stimulate", "clamp", "delete_recordings", "delete_stimuli", "delete_clamps"):
                w.io_epoch += 1
            if op["op"] == "move":
                after = snap.snapshot(w.m, with_xyzr=False)
                if after != before:
                    w.violate("mutation_confined", "move changed simulation tables: " + "; ".join(snap.diff(before, after)[:4]), index)
                rows = set(info.get("rows", []))
                moved_branches = set(w.ref.branch[n] for n in rows)
                for b, (x0, x1) in enumerate(zip(xyzr_before, w.m.xyzr)):
                    same = np.array_equal(np.nan_to_num(x0, nan=-1e9), np.nan_to_num(np.asarray(x1), nan=-1e9))
                    if b not in moved_branches and not same:
                        w.violate("mutation_confined", f"move through a view changed xyzr of branch {b} outside the view", index)
                    if b in moved_branches:
                        # every branch with a compartment in the view is displaced as a whole by (x, y, z); radii stay
                        want = np.array(x0, dtype=float, copy=True)
                        want[:, :3] += np.asarray(op["xyz"], dtype=float)
                        got = np.asarray(x1, dtype=float)
                        if got.shape != want.shape or not np.allclose(np.nan_to_num(got, nan=-1e9), np.nan_to_num(want, nan=-1e9), rtol=0, atol=1e-9):
                            w.violate("mutation_confined", f"move({op['xyz']}) through a view holding compartments of branch {b}: its xyzr moved by "
                                      f"{np.nan_to_num(got[:, :3] - x0[:, :3]).max(axis=0).tolist() if got.shape == want.shape else 'another shape'}", index)
            if check:
                d = conform(w.ref, w.m)
                if d:
                    w.violate("tables_conform", f"after {op['op']}: " + "; ".join(d[:5]), index)
                    w.stopped = f"op {index}: tables diverged from the model"
                d2 = structural_invariants(w.m)
                dang = [x for x in d2 if x.startswith("dangling:")]
                rest = [x for x in d2 if not x.startswith("dangling:")]
                if dang and op["op"] == "delete_channel":
                    # references to states of a channel that this call removed from the module: reported once, the
                    # history stops (what integrate does with such a module is not defined)
                    w.violate("structural_invariant", f"after {op['op']}: " + "; ".join(dang[:5]), index,
                              {"dangling_after_delete_channel": True, "signature_ok": True})
                    w.stopped = f"op {index}: dangling references after delete_channel"
                elif dang:
                    rest = dang + rest
                if rest:
                    w.violate("structural_invariant", f"after {op['op']}: " + "; ".join(rest[:5]), index)
    w.bump("op_" + op["op"])
    w.chain.add("op", {"op": op, "out": out, "tables": snap.digest(snap.snapshot(w.m)) if check else None})
    return out
