"""One integer decides everything: labelled, independent PRNG sub-streams derived from a seed.

`stream(seed, "ops")` returns a `random.Random` whose state depends only on (seed, label).
Logging never draws from these and never reads a clock."""
import hashlib
import random
import struct

MASK = (1 << 64) - 1


def mix(*parts) -> int:
    """Stable 64-bit hash of a tuple of ints / strings (independent of PYTHONHASHSEED)."""
    h = hashlib.sha256()
    for p in parts:
        b = str(p).encode() if not isinstance(p, bytes) else p
        h.update(struct.pack("<I", len(b)))
        h.update(b)
    return int.from_bytes(h.digest()[:8], "little")


def stream(seed: int, label: str) -> random.Random:
    return random.Random(mix("jxsim", seed, label))


def run_seed(batch_seed: int, prop: str, index: int) -> int:
    return mix("run", batch_seed, prop, index) & 0x7FFFFFFFFFFF


def uval(valseed: int, key: str, i: int, lo: float, hi: float) -> float:
    """Deterministic 'attributable' value in [lo, hi): distinct for every (key, i); 6 significant decimals
    so that it survives JSON and table round trips exactly."""
    u = (mix("val", valseed, key, i) >> 11) / float(1 << 53)
    return round(lo + (hi - lo) * u, 6)
