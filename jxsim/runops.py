"""The `run` operation (one integrate invocation inside a history) with its oracles, and the `persist` /
`abort` fault operations.  Shared by the lifecycle scenarios (C19, C18, C06, ...)."""
import math

import numpy as np

from . import env

env.setup()

from . import faults, refsim, simrun, snap, twin  # noqa: E402
from .driver import HarnessError, conform, exc_in_harness, exc_text, is_backend_refusal, ref_from_module  # noqa: E402
from .refmodule import isnan  # noqa: E402

TOL_SAME = dict(rtol=1e-9, atol=1e-9)
TOL_REF = dict(rtol=1e-7, atol=1e-6)


def expected_steps(ref, op):
    """(steps or None, reject reason or None) for a run op, from the model alone."""
    L = None
    for k, lst in ref.externals.items():
        if lst:
            L = len(lst[0][1]) if L is None else L
    steps = op.get("steps")
    if not ref.recordings:
        return None, "no recordings"
    if steps is None and L is None:
        return None, "no t_max and no inputs"
    lens = set(len(a) for lst in ref.externals.values() for _, a in lst)
    if steps is None and len(lens) > 1:
        return None, "inputs of different lengths without t_max"  # refused (the scan cannot stack them): nothing may be left behind
    n = steps if steps is not None else L
    if steps is not None:
        for k, lst in ref.externals.items():
            if k != "i" and lst and len(lst[0][1]) < steps:
                return None, "clamp shorter than t_max"
    ck = op.get("ckpt")
    if ck is not None and math.prod(ck) < n:
        return None, "checkpoint product < steps"
    return n, None


def nan_rows(ref):
    """Recording rows whose value is unspecified: a gate / current on a compartment lacking the channel."""
    rows = []
    cs = ref.comp_states()
    for j, (idx, state) in enumerate(ref.recordings):
        if state == "v" or state not in cs:
            continue
        owners = [name for name, c in ref.chans.items() if state in c["states"]]
        if owners and not any(ref.flags[o][idx] for o in owners):
            rows.append(j)
    return rows


def effective_ref(ref, use_params):
    eff = ref.clone()
    if use_params and eff.trainables:
        eff.write_trainables([t["vals"] for t in eff.trainables], skip_absent=True)
    eff.trainables = []
    return eff


def call_integrate(w, m, op, steps, params=None, **extra):
    """integrate with the op's knobs; backend refusal falls back to jax.sparse (+bwd_euler if needed)."""
    kw = dict(steps=op.get("steps"), dt=op.get("dt", 0.025), solver=op.get("solver", "bwd_euler"),
              vsolver=op.get("vsolver", "jaxley.stone"), mode=op.get("mode", "eager"), ckpt=op.get("ckpt"), params=params)
    kw.update(extra)
    try:
        return simrun.integrate(m, **kw), kw
    except Exception as e:  # noqa: BLE001
        if exc_in_harness(e):
            raise HarnessError(f"integrate: {type(e).__name__}: {e}") from e
        if is_backend_refusal(e) and kw["vsolver"] != "jax.sparse":
            w.bump("probe_backend_refusal")
            kw["vsolver"] = "jax.sparse"
            return simrun.integrate(m, **kw), kw
        raise


def do_run(w, op, index, use_twin=True, use_refsim=True):
    """Execute a run op on w.m with all oracles.  Returns outcome dict (with 'out' = recordings) ."""
    ref = w.ref
    steps, why = expected_steps(ref, op)
    if why and why.startswith("unspec"):
        w.stopped = f"op {index} (run): {why}"
        w.bump("unspecified_stop")
        return {"outcome": "unspec"}
    use_params = bool(op.get("use_params")) and bool(ref.trainables)
    params = w.m.get_parameters() if use_params else None
    before = snap.snapshot(w.m)
    out = None
    raised = None
    try:
        out, kw = call_integrate(w, w.m, op, steps, params=params)
    except HarnessError:
        raise
    except Exception as e:  # noqa: BLE001
        raised = e
    after = snap.snapshot(w.m)
    if after != before:
        w.violate("module_unchanged", "integrate changed the module: " + "; ".join(snap.diff(before, after)[:4]), index)
    w.bump("op_run")
    if why:
        if raised is None:
            w.stopped = f"op {index} (run): predicted rejection ({why}) was accepted"
            w.bump("reject_not_raised")
            return {"outcome": "reject_not_raised"}
        w.bump("fault_reject")
        w.chain.add("run", {"op": op, "rejected": type(raised).__name__})
        return {"outcome": "rejected", "why": why}
    if raised is not None:
        w.violate("unexpected_refusal", f"integrate raised {exc_text(raised)} on an accepted history", index,
                  {"exc": type(raised).__name__})
        w.stopped = f"op {index}: integrate refused"
        return {"outcome": "unexpected_refusal"}
    w.bump("integrate_calls")
    w.sim_ms = getattr(w, "sim_ms", 0.0) + steps * op.get("dt", 0.025)
    nrec = len(ref.recordings)
    if out.shape != (nrec, steps + 1):
        w.violate("row_shape", f"integrate returned shape {out.shape}, expected ({nrec}, {steps + 1})", index)
        return {"outcome": "accepted", "out": out}
    unspecified = nan_rows(ref)
    mask = np.ones(nrec, dtype=bool)
    mask[unspecified] = False
    if unspecified:
        w.bump("probe_unspecified_nan_rows", len(unspecified))
    if not np.all(np.isfinite(out[mask])):
        bad = [j for j in range(nrec) if mask[j] and not np.all(np.isfinite(out[j]))]
        w.violate("finite_output", f"non-finite values in rows {bad[:6]} ({[ref.recordings[j] for j in bad[:3]]})", index)
    eff = effective_ref(ref, use_params)
    solver = kw["solver"]
    if use_refsim and solver in ("bwd_euler", "crank_nicolson"):
        try:
            # RefSim reads the *displayed tables* (not the prediction): C19 'simulates exactly the model displayed'
            shown = ref_from_module(w.m)
            if use_params:
                shown.trainables = [dict(t) for t in ref.trainables]
                shown = effective_ref(shown, True)
            rs = refsim.RefSim(shown, solver)
            expect, _ = rs.run(steps, kw["dt"])
        except Exception as e:  # noqa: BLE001
            raise HarnessError(f"RefSim failed: {type(e).__name__}: {e}") from e
        w.bump("oracle_refsim")
        if not simrun.close(out[mask], expect[mask], **TOL_REF):
            d = np.abs(out - expect)
            d[~mask] = 0
            j = int(np.nanargmax(np.nan_to_num(d, nan=np.inf).max(axis=1)))
            w.violate("refsim_equal", f"recording row {j} {ref.recordings[j]} differs from the reference simulation of the displayed tables by "
                      f"{simrun.maxdiff(out[mask], expect[mask]):.3e} (solver={solver}, voltage_solver={kw['vsolver']}, dt={kw['dt']})", index,
                      {"vsolver": kw["vsolver"], "solver": solver, "hetero_ncomp": len(set(ref.ncomp_per_branch)) > 1})
    if use_twin:
        try:
            tw = twin.twin_from_ref(eff)
        except twin.TwinUnbuildable:
            tw = None
            w.bump("probe_twin_unbuildable")
        except Exception as e:  # noqa: BLE001
            raise HarnessError(f"twin construction failed: {type(e).__name__}: {e}") from e
        if tw is not None:
            d = conform(eff, tw)
            if d:
                # the twin is one fixed script over the public API (build, insert, connect, set, record, stimulate):
                # a module built by it that does not display what the script just set is a defect of those calls
                w.violate("twin_equal", "a module built from scratch by the canonical script (construct, insert, connect, set) does not "
                          "display the values the script set: " + "; ".join(d[:4]), index, {"rebuild": True})
                return {"outcome": "violation"}
            try:
                out2, _ = call_integrate(w, tw, dict(op, mode="eager", ckpt=None, vsolver=kw["vsolver"]), steps)
            except HarnessError:
                raise
            except Exception as e:  # noqa: BLE001
                out2 = None
                w.violate("twin_equal", f"the canonical twin of the displayed tables raised {exc_text(e)} while the history-built module simulated", index)
            w.bump("oracle_twin")
            if out2 is not None and not simrun.close(out, out2, **TOL_SAME):
                w.violate("twin_equal", f"history-built module and canonical twin of its tables differ by {simrun.maxdiff(out, out2):.3e}", index)
    w.chain.add("run", {"op": op, "out": snap.arrays_digest(out)})
    return {"outcome": "accepted", "out": out, "kw": kw}


def do_persist(w, op, index):
    how = op["how"]
    try:
        m2 = faults.persist(w.m, how)
    except faults.PersistFailed as e:
        w.violate("copy_equal", str(e), index, {"how": how})
        return {"outcome": "violation"}
    a, b = snap.snapshot(w.m), snap.snapshot(m2)
    if a != b:
        w.violate("copy_equal", f"{how} copy differs: " + "; ".join(snap.diff(a, b)[:4]), index)
    w.m = m2  # the session continues on the copy; the original is dropped (restart with only durable state)
    w.epoch = getattr(w, "epoch", 0) + 1  # view handles of the dropped module are gone
    w.bump("fault_persist_" + how)
    w.chain.add("persist", {"how": how, "tables": snap.digest(b)})
    return {"outcome": "accepted"}


def do_abort(w, op, index):
    """Abort an integrate call at an internal point, then require: tables unchanged, and the next identical
    integrate equals an un-aborted one bit for bit."""
    ref = w.ref
    steps, why = expected_steps(ref, op)
    if why:
        return {"outcome": "skipped"}
    before = snap.snapshot(w.m)
    try:
        ref_out, kw = call_integrate(w, w.m, op, steps)
    except HarnessError:
        raise
    except Exception:  # noqa: BLE001  (the run op reports refusals; abort only needs a working baseline)
        return {"outcome": "skipped"}
    fired = []
    try:
        with faults.abort_at(op["point"], fired):
            simrun.integrate(w.m, **kw)
        aborted = False
    except faults.SimAbort:
        aborted = True
    except Exception as e:  # noqa: BLE001
        if exc_in_harness(e):
            raise HarnessError(str(e)) from e
        aborted = bool(fired)
    if not aborted:
        w.bump("probe_abort_point_not_reached")
        return {"outcome": "skipped"}
    w.bump("fault_abort_" + op["point"])
    after = snap.snapshot(w.m)
    if after != before:
        w.violate("module_unchanged", f"integrate aborted at {op['point']} left the module changed: " + "; ".join(snap.diff(before, after)[:4]), index)
    try:
        again, _ = call_integrate(w, w.m, op, steps)
    except HarnessError:
        raise
    except Exception as e:  # noqa: BLE001
        w.violate("repeat_bit_identical", f"integrate after an aborted call raised {exc_text(e)}", index)
        return {"outcome": "violation"}
    if not np.array_equal(ref_out, again, equal_nan=True):
        w.violate("repeat_bit_identical", f"integrate after a call aborted at {op['point']} differs by {simrun.maxdiff(ref_out, again):.3e}", index)
    w.chain.add("abort", {"point": op["point"], "out": snap.arrays_digest(again)})
    return {"outcome": "accepted"}
