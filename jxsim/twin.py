"""Twin — canonical reconstruction of a fresh jaxley module from nothing but displayed tables (oracle 2).

The twin is built by the shortest public-API script; it runs the same jaxley numerics, so comparing
history-built module and twin isolates *history dependence* and is immune to benign numerical refactorings."""
from . import env

env.setup()
import jax.numpy as jnp  # noqa: E402
import numpy as np  # noqa: E402
from jaxley.connect import connect as jx_connect  # noqa: E402

from . import mech  # noqa: E402
from .driver import build_jx, quiet, ref_from_module  # noqa: E402
from .refmodule import BASE_PARAMS, isnan  # noqa: E402


class TwinUnbuildable(Exception):
    """The displayed tables cannot be reproduced through the public API (e.g. a recording of a gate on a
    compartment that lacks the channel).  The twin oracle is skipped and counted."""


def shape_from_ref(ref):
    cells = []
    ncells = len(set(ref.cell)) if ref.n else 0
    for ci in sorted(set(ref.cell)):
        bs = sorted(set(ref.branch[i] for i in range(ref.n) if ref.cell[i] == ci))
        off = bs[0]
        cells.append({"parents": [-1 if ref.parents[b] == -1 else ref.parents[b] - off for b in bs],
                      "ncomp": [ref.ncomp_per_branch[b] for b in bs]})
    return {"kind": ref.kind, "cells": cells, "share": "all"}


def twin_from_tables(m, with_recordings=True, with_externals=True):
    """Returns a fresh module displaying the same tables as m (trainables are not reproduced)."""
    ref = ref_from_module(m)
    return twin_from_ref(ref, with_recordings, with_externals)


def twin_from_ref(ref, with_recordings=True, with_externals=True):
    if ref.kind == "network" or ref.kind in ("cell", "branch", "compartment"):
        shape = shape_from_ref(ref)
    with quiet():
        t = build_jx(shape)
        for key in BASE_PARAMS + ["v"]:
            t.set(key, np.asarray(ref.cols[key], dtype=float))
        for name, c in ref.chans.items():
            rows = [i for i in range(ref.n) if ref.flags[name][i]]
            if not rows:
                continue
            t.select(nodes=rows).insert(mech.make_channel(c["cls"], name))
        # set after all inserts: insert() overwrites shared columns with defaults
        for name, c in ref.chans.items():
            rows = [i for i in range(ref.n) if ref.flags[name][i]]
            if not rows:
                continue
            for col in list(c["params"]) + list(c["states"]):
                vals = [ref.cols[col][i] for i in rows]
                if any(isnan(x) for x in vals):
                    raise TwinUnbuildable(f"NaN in {col} on a row that has {name}")
                t.select(nodes=rows).set(col, np.asarray(vals, dtype=float))
        for e, ed in enumerate(ref.edges):
            s = [s for s in ref.syns if s["name"] == ed["type"]][0]
            jx_connect(t.select(nodes=[ed["pre"]]), t.select(nodes=[ed["post"]]), mech.make_synapse(s["cls"], s["name"]))
            for col in list(s["params"]) + list(s["states"]):
                t.select(edges=[e]).set(col, float(ed["vals"][col]))
        comp_states = ref.comp_states()
        if with_recordings:
            for idx, state in ref.recordings:
                if state in comp_states:
                    v = t.select(nodes=[idx])
                    if state not in v._get_state_names()[0]:
                        raise TwinUnbuildable(f"recording of {state} on a compartment lacking its channel")
                    v.record(state, verbose=False)
                else:
                    t.select(edges=[idx]).record(state, verbose=False)
        if with_externals:
            for key, lst in ref.externals.items():
                for idx, arr in lst:
                    if key in comp_states:
                        v = t.select(nodes=[idx])
                        if key != "i" and key not in v._get_state_names()[0]:
                            raise TwinUnbuildable(f"clamp of {key} on a compartment lacking its channel")
                    else:
                        v = t.select(edges=[idx])
                    if key == "i":
                        v.stimulate(jnp.asarray(arr), verbose=False)
                    else:
                        v.clamp(key, jnp.asarray(arr), verbose=False)
        for g, members in ref.groups.items():
            t.select(nodes=list(members)).add_to_group(g)
    return t
