"""Running jaxley's time loop with execution knobs drawn by the simulator."""
from . import env

env.setup()
import jax  # noqa: E402
import jax.numpy as jnp  # noqa: E402
import numpy as np  # noqa: E402
import jaxley as jx  # noqa: E402

from .driver import quiet  # noqa: E402


def tmax_for(steps, dt):
    """t_max such that int(t_max // dt + 1) == steps, robustly (mid-step)."""
    if steps == 1:
        return 0.0  # "one step" asked for the way people write it; int(0.0 // dt + 1) == 1, and 0.0 is falsy
    t = (steps - 1) * dt + 0.5 * dt
    assert int(t // dt + 1) == steps, (steps, dt, t)
    return t


class ArgsMutated(Exception):
    """integrate changed an object the caller handed to it (raised by the seam below, counted as behaviour of the
    library: `sut_defect` makes driver.exc_in_harness answer False)."""
    sut_defect = True


def _arg_prints(ckpt, params, param_state, data_stimuli, data_clamps, all_states):
    """Fingerprints of the caller-owned argument objects: list / dict structure, and identity of the (immutable) arrays."""
    def tree(x):
        if isinstance(x, dict):
            return ("dict", tuple((k, tree(v)) for k, v in x.items()))
        if isinstance(x, (list, tuple)):
            return (type(x).__name__, tuple(tree(v) for v in x))
        if isinstance(x, (int, float, str, bool)) or x is None:
            return repr(x)
        if hasattr(x, "columns") and hasattr(x, "index"):  # pandas frame inside data_stimuli / data_clamps
            return ("frame", tuple(map(str, x.columns)), tuple(x.index.tolist()), tuple(map(repr, x.to_numpy().ravel().tolist())))
        return ("obj", id(x))
    return {"checkpoint_lengths": tree(ckpt), "params": tree(params), "param_state": tree(param_state),
            "data_stimuli": tree(data_stimuli), "data_clamps": tree(data_clamps), "all_states": tree(all_states)}


def integrate(m, steps=None, dt=0.025, solver="bwd_euler", vsolver="jaxley.stone", mode="eager", ckpt=None,
              params=None, param_state=None, data_stimuli=None, data_clamps=None, all_states=None, return_states=False):
    """mode: eager | jit.  Returns np.ndarray (or (np.ndarray, states)) — exceptions propagate."""
    kw = dict(delta_t=dt, solver=solver, voltage_solver=vsolver, checkpoint_lengths=ckpt, return_states=return_states)
    if steps is not None:
        kw["t_max"] = tmax_for(steps, dt)
    if all_states is not None:
        kw["all_states"] = all_states
    ck_copy = list(ckpt) if isinstance(ckpt, list) else None
    prints = _arg_prints(ckpt, params, param_state, data_stimuli, data_clamps, all_states)
    p = params  # None: `params` is left at integrate's own default (as users do), not replaced by a fresh list

    def f(p, ps, ds, dc):
        if p is None:
            return jx.integrate(m, param_state=ps, data_stimuli=ds, data_clamps=dc, **kw)
        return jx.integrate(m, p, param_state=ps, data_stimuli=ds, data_clamps=dc, **kw)

    with quiet():
        if mode == "jit":
            # data_stimuli / data_clamps carry a pandas frame: close over them, trace only the arrays
            def g(p, ps_vals, ds_arr, dc_arr):
                ps = None if param_state is None else [dict(d, val=v) for d, v in zip(param_state, ps_vals)]
                ds = None if data_stimuli is None else (data_stimuli[0], ds_arr, data_stimuli[2])
                dc = None if data_clamps is None else (data_clamps[0], dc_arr, data_clamps[2])
                return f(p, ps, ds, dc)

            out = jax.jit(g)(p, None if param_state is None else [d["val"] for d in param_state],
                             None if data_stimuli is None else data_stimuli[1],
                             None if data_clamps is None else data_clamps[1])
        else:
            out = f(p, param_state, data_stimuli, data_clamps)
    after = _arg_prints(ckpt, params, param_state, data_stimuli, data_clamps, all_states)
    if after != prints:
        changed = [k for k in prints if prints[k] != after[k]]
        msg = f"integrate changed the argument object(s) {changed} the caller passed"
        if "checkpoint_lengths" in changed:
            msg += f": checkpoint_lengths was {ck_copy}, is now {list(ckpt)}"
            ckpt[:] = ck_copy  # the program (and its replay file) keeps what was generated
        raise ArgsMutated(msg)
    if return_states:
        return np.asarray(out[0]), out[1]
    return np.asarray(out)


def close(a, b, rtol=1e-9, atol=1e-9):
    a = np.asarray(a, dtype=float)
    b = np.asarray(b, dtype=float)
    if a.shape != b.shape:
        return False
    both_nan = np.isnan(a) & np.isnan(b)
    d = np.abs(a - b)
    ok = (d <= atol + rtol * np.maximum(np.abs(a), np.abs(b))) | both_nan
    return bool(np.all(ok))


def maxdiff(a, b):
    a = np.asarray(a, dtype=float)
    b = np.asarray(b, dtype=float)
    if a.shape != b.shape:
        return float("inf")
    d = np.abs(a - b)
    d = np.where(np.isnan(a) & np.isnan(b), 0.0, d)
    if np.any(np.isnan(d)):
        return float("inf")
    return float(d.max()) if d.size else 0.0
