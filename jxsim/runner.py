"""Batch runner: spawns worker interpreters, collects results, matches known findings, minimises the first
unknown violation, writes the replay file and the evidence file.

Exit codes: 0 property held on everything explored (KNOWN-FINDING lines allowed); 1 VIOLATION;
2 harness error / watchdog (never 0, never a VIOLATION line)."""
import importlib
import json
import os
import subprocess
import sys
import time

VERIF = os.path.dirname(os.path.dirname(os.path.abspath(__file__)))
PY = os.environ.get("JXSIM_PYTHON", "/venv/bin/python")
# where evidence/ and replays/ are written: /verif for the registered checks; a scratch directory when the machinery is
# pointed at a scratch copy of the repository (mutant evaluation, sensitivity self-test)
OUT = os.environ.get("JXSIM_OUT", VERIF)
sys.path.insert(0, VERIF)


def child_env():
    from .env import PINNED_ENV

    e = dict(os.environ)
    e.update(PINNED_ENV)
    e["PYTHONPATH"] = VERIF + (os.pathsep + e["PYTHONPATH"] if e.get("PYTHONPATH") else "")
    return e


def load_known(prop):
    path = os.path.join(VERIF, "known_findings.json")
    if not os.path.exists(path):
        return []
    data = json.load(open(path))
    return [e for e in data.get("entries", []) if e.get("property") == prop and e.get("status") == "open"]


def match_known(violation, entries):
    """An open entry matches iff oracle equal, every `where` predicate equal in the violation's detail, and the
    scenario's signature verifier (run inside the worker) confirmed the bug's signature."""
    det = violation.get("detail") or {}
    for e in entries:
        if e.get("oracle") != violation.get("oracle"):
            continue
        if any(det.get(k) != v for k, v in (e.get("where") or {}).items()):
            continue
        if e.get("signature") and not det.get("signature_ok"):
            continue
        return e
    return None


def repo_version():
    repo = os.environ.get("VERIF_REPO", "/repo")
    try:
        head = subprocess.run(["git", "-C", repo, "rev-parse", "--short", "HEAD"], capture_output=True, text=True, timeout=20).stdout.strip()
        dirty = bool(subprocess.run(["git", "-C", repo, "status", "--porcelain", "--untracked-files=no"], capture_output=True, text=True, timeout=20).stdout.strip())
    except Exception:  # noqa: BLE001
        head, dirty = "?", None
    return {"repo_head": head, "repo_dirty": dirty}


def prune_xla_cache(limit=4 * 1024**3, target=2 * 1024**3):
    """Keep the persistent XLA cache (a pure speed-up) bounded: oldest entries go first."""
    d = os.environ.get("JXSIM_XLA_CACHE", os.path.join(VERIF, ".work", "xla_cache"))
    try:
        files = [(os.path.getmtime(os.path.join(d, f)), os.path.getsize(os.path.join(d, f)), os.path.join(d, f)) for f in os.listdir(d)]
        total = sum(sz for _, sz, _ in files)
        if total > limit:
            for _, sz, path in sorted(files):
                os.remove(path)
                total -= sz
                if total < target:
                    break
    except Exception:  # noqa: BLE001
        pass


def run_batch(prop, tier, batch_seed, nruns=None, workers=None, wall_limit=None, out=sys.stdout):
    prune_xla_cache()
    sc = importlib.import_module(f"jxsim.scenarios.{prop.lower()}")
    nruns = nruns or int(os.environ.get("JXSIM_RUNS", 0)) or sc.RUNS[tier]
    workers = workers or int(os.environ.get("JXSIM_WORKERS", 0)) or min(16, os.cpu_count() or 4)
    workers = max(1, min(workers, nruns))
    wall_limit = wall_limit or float(os.environ.get("JXSIM_WALL", 0)) or getattr(sc, "WALL", {}).get(tier, 900 if tier == "quick" else 4 * 3600)
    t0 = time.time()
    tmpdir = os.path.join(VERIF, ".work", f"{prop}-{tier}-{batch_seed}-{os.getpid()}")
    os.makedirs(tmpdir, exist_ok=True)
    procs = []
    for w in range(workers):
        of = os.path.join(tmpdir, f"w{w}.jsonl")
        ef = open(os.path.join(tmpdir, f"w{w}.err"), "w")
        p = subprocess.Popen([PY, "-m", "jxsim.worker", prop, tier, str(batch_seed), str(w), str(workers), str(nruns), of, str(wall_limit * 0.9)],
                             env=child_env(), cwd=VERIF, stdout=ef, stderr=ef)
        procs.append((p, of, ef))
    harness_errors = []
    for p, of, ef in procs:
        remaining = max(5.0, wall_limit + 120 - (time.time() - t0))
        try:
            rc = p.wait(timeout=remaining)
        except subprocess.TimeoutExpired:
            p.kill()
            rc = -9
            harness_errors.append(f"worker for {of} exceeded the wall limit and was killed")
        ef.close()
        if rc != 0:
            tail = open(ef.name).read()[-1500:]
            harness_errors.append(f"worker {of} exit {rc}: {tail}")
    records = []
    for _, of, _ in procs:
        done = False
        if os.path.exists(of):
            for line in open(of):
                try:
                    r = json.loads(line)
                except Exception:  # noqa: BLE001
                    continue
                if r.get("done"):
                    done = True
                elif "res" in r:
                    records.append(r)
                elif r.get("skipped"):
                    records.append(r)
        if not done:
            harness_errors.append(f"worker output {of} incomplete")
    records.sort(key=lambda r: r["i"])
    executed = [r for r in records if "res" in r]
    skipped = [r for r in records if r.get("skipped")]
    for r in executed:
        if r["res"].get("harness_error"):
            harness_errors.append(f"run {r['i']} seed {r['seed']}: {r['res']['harness_error'][:1200]}")
    known = load_known(prop)
    known_hits = {}
    unknown = []
    for r in executed:
        for v in r["res"].get("violations", []):
            e = match_known(v, known)
            if e is not None:
                h = known_hits.setdefault(e["id"], {"entry": e, "count": 0, "first_seed": r["seed"], "runs": set()})
                h["count"] += 1
                h["runs"].add(r["i"])
            else:
                unknown.append((r, v))
    try:  # developer aid: every violation of the last batch (not evidence, git-ignored)
        with open(os.path.join(VERIF, ".work", f"last-{prop}.jsonl"), "w") as f:
            for r, v in unknown:
                f.write(json.dumps({"i": r["i"], "seed": r["seed"], "v": v, "program": r.get("program")}, default=str) + "\n")
    except Exception:  # noqa: BLE001
        pass
    replay_path = None
    shrink_log = {}
    if unknown and not harness_errors:
        r, v = unknown[0]
        program = r.get("program") or sc.generate(r["seed"], tier)
        from .shrink import shrink, _exec_program

        minimal = program
        if os.environ.get("JXSIM_NO_SHRINK") != "1":
            minimal = shrink(sc, prop, program, v["oracle"], budget_s=float(os.environ.get("JXSIM_SHRINK_S", 150)), log=shrink_log)
        res_min = _exec_program(prop, minimal) or {}
        vmin = next((x for x in res_min.get("violations", []) if x["oracle"] == v["oracle"]), v)
        os.makedirs(os.path.join(OUT, "replays"), exist_ok=True)
        replay_path = os.path.join(OUT, "replays", f"{prop}-{r['seed']}.json")
        json.dump({"property": prop, "seed": r["seed"], "batch_seed": batch_seed, "run_index": r["i"], "tier": tier,
                   "program": minimal, "original_program": program,
                   "violation": vmin, "original_violation": v, "event_digest": res_min.get("digest"),
                   "fault_trace": {k: n for k, n in (res_min.get("stats") or {}).items() if k.startswith("fault_")},
                   "shrink": shrink_log, "versions": versions()}, open(replay_path, "w"), indent=1, default=str)
    wall = time.time() - t0
    ev = evidence(sc, prop, tier, batch_seed, executed, skipped, unknown, known_hits, harness_errors, wall, workers, nruns)
    os.makedirs(os.path.join(OUT, "evidence"), exist_ok=True)
    evpath = os.path.join(OUT, "evidence", f"{prop}.json")
    json.dump(ev, open(evpath, "w"), indent=1, default=str)
    # cleanup work files
    try:
        import shutil

        shutil.rmtree(tmpdir, ignore_errors=True)
    except Exception:  # noqa: BLE001
        pass
    print(f"[{prop}] tier={tier} seed={batch_seed} runs={len(executed)}/{nruns} skipped={len(skipped)} workers={workers} wall={wall:.1f}s "
          f"violations={len(unknown)} known={sum(h['count'] for h in known_hits.values())} harness_errors={len(harness_errors)}", file=out)
    for e in known:  # one line per open listed finding of this property, whether or not this batch ran into it
        h = known_hits.get(e["id"])
        seen = (f"matched {h['count']} violations in {len(h['runs'])} runs, first seed {h['first_seed']}" if h else "not encountered in this batch")
        print(f"KNOWN-FINDING: property={prop} {e['id']}: {e['text']} ({seen})", file=out)
    if harness_errors:
        for h in harness_errors[:5]:
            print("HARNESS-ERROR:", h, file=out)
        return 2
    if not executed:
        print("HARNESS-ERROR: nothing executed", file=out)
        return 2
    if unknown:
        r, v = unknown[0]
        print(f"first violation: run {r['i']} seed {r['seed']} oracle={v['oracle']}: {v['message'][:400]}", file=out)
        print(f"VIOLATION property={prop} replay={replay_path}", file=out)
        return 1
    return 0


def versions():
    import platform

    v = {"python": platform.python_version()}
    v.update(repo_version())
    try:
        import importlib.metadata as md

        for pkg in ("jax", "jaxlib", "numpy", "pandas"):
            v[pkg] = md.version(pkg)
    except Exception:  # noqa: BLE001
        pass
    return v


def evidence(sc, prop, tier, batch_seed, executed, skipped, unknown, known_hits, harness_errors, wall, workers, nruns):
    stats = {}
    digests = set()
    nontrivial_digests = set()
    states = set()
    transitions = set()
    sim_ms = 0.0
    integ = 0
    stopped = {}
    run_wall = 0.0
    for r in executed:
        res = r["res"]
        for k, n in (res.get("stats") or {}).items():
            stats[k] = stats.get(k, 0) + n
        if res.get("digest"):
            digests.add(res["digest"])
            if res.get("nontrivial"):
                nontrivial_digests.add(res["digest"])
        states.update(res.get("abstract_states") or [])
        transitions.update(res.get("transitions") or [])
        sim_ms += res.get("sim_time_ms") or 0.0
        integ += res.get("integrate_calls") or 0
        run_wall += res.get("wall_s") or 0.0
        if res.get("stopped"):
            key = str(res["stopped"]).split(":")[-1].strip()[:60]
            stopped[key] = stopped.get(key, 0) + 1
    samples = [{"run_index": r["i"], "seed": r["seed"], "program": r["program"]} for r in executed if "program" in r and not r["res"].get("violations")][:3]
    if not samples:
        samples = [{"run_index": r["i"], "seed": r["seed"], "program": r.get("program")} for r in executed[:1]]
    faults = {k[len("fault_"):]: n for k, n in sorted(stats.items()) if k.startswith("fault_")}
    probes = {k[len("probe_"):]: n for k, n in sorted(stats.items()) if k.startswith("probe_")}
    ops = {k: n for k, n in sorted(stats.items()) if not k.startswith(("fault_", "probe_"))}
    hours = max(wall, 1e-9) / 3600.0
    return {
        "property_id": prop,
        "tier": tier,
        "seed": int(batch_seed),
        "level": sc.LEVEL,
        "wall_s": round(wall, 2),
        "violations": len(unknown),
        "coverage": {
            "evaluations": len(executed),
            "distinct_nontrivial": len(nontrivial_digests),
            "rule": getattr(sc, "RULE", "one evaluation = one seeded simulated run (program generated from run seed = H(VERIF_SEED, property, index)); "
                            "distinct = distinct final SHA-256 event-chain digests; non-trivial = the run executed at least one injected fault "
                            "and at least one oracle-bearing operation (scenario-specific flag 'nontrivial')"),
            "samples": samples,
            "states": len(states),
            "transitions": len(transitions),
            "state_measure": "distinct abstract states = hashes of (module kind, tree shapes, ncomp multiset, channel placement, #edges per type, "
                             "#recordings, #inputs, #trainables) reached; transitions = distinct (abstract state, operation kind) pairs",
            "runs_requested": nruns,
            "runs_skipped_deadline": len(skipped),
            "distinct_event_digests": len(digests),
            "runs_per_hour": round(len(executed) / hours),
            "seeds_per_hour": round(len(executed) / hours),
            "simulated_time_ms": round(sim_ms, 4),
            "integrate_calls": integ,
            "faults_fired": faults,
            "probes": probes,
            "operations": ops,
            "histories_stopped_as_unspecified": stopped,
            "known_findings_matched": {k: h["count"] for k, h in known_hits.items()},
            "harness_errors": len(harness_errors),
            "workers": workers,
            "cpu_seconds_in_runs": round(run_wall, 1),
            "components": {
                "real": ["jaxley (imported from the working tree of VERIF_REPO, default /repo)", "jax / jaxlib (XLA CPU)", "pandas", "numpy"],
                "stub_or_simulator_owned": getattr(sc, "STUBS", ["global NumPy RNG (seeded / forced by the simulator)"]),
            },
            "versions": versions(),
        },
        "assumptions": getattr(sc, "ASSUMPTIONS", []) + [
            "a clean batch is evidence, not proof: seeded random search over programs within the bounds stated in DESIGN.md section 3.2",
            "float64, CPU only",
        ],
    }


def replay(prop, path, out=sys.stdout):
    from .shrink import _exec_program

    data = json.load(open(path))
    res = _exec_program(prop, data["program"])
    if res is None or res.get("harness_error"):
        print("HARNESS-ERROR: replay failed to execute:", (res or {}).get("harness_error"), file=out)
        return 2
    want = data["violation"]["oracle"]
    known = load_known(prop)
    hits = [v for v in res.get("violations", []) if v["oracle"] == want]
    same_digest = res.get("digest") == data.get("event_digest")
    print(f"[{prop}] replay {path}: violations={len(res.get('violations', []))} same_oracle={bool(hits)} same_digest={same_digest}", file=out)
    if hits:
        e = match_known(hits[0], known)
        if e is not None:
            print(f"KNOWN-FINDING: property={prop} {e['id']}: {e['text']}", file=out)
            return 0
        print(f"violation: {hits[0]['oracle']}: {hits[0]['message'][:400]}", file=out)
        print(f"VIOLATION property={prop} replay={path}", file=out)
        return 1
    return 0
