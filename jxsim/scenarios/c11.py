"""C11 — views select exactly the described compartments, in local or global scope.

Workload: irregular modules (edges, groups, channels on subsets); random selection chains with every index form,
both scopes and scope switches mid-chain, loc, group / channel / synapse-type attribute views, select, lazy []
indexing and iteration; interleaved with mutating calls made *through views* so that later chains run on a module
whose tables were edited through earlier views (history).
Faults: reject (empty selection, too many lazy indices, unsupported level), persist of the module between
selection and use (views are always re-created).
Oracle: RefModule view algebra (view_rows, view_local_ranks, lazy_iter_agree) and table conformance after every
mutating call (mutation_confined = nothing but the predicted rows/columns changed)."""
import copy

from .. import env

env.setup()
import numpy as np  # noqa: E402

from .. import mech, snap  # noqa: E402
from ..driver import HarnessError, World, exc_in_harness, exc_text, quiet, resolve_idx, jsonable_idx  # noqa: E402
from ..ops import apply_op  # noqa: E402
from ..program import DryWorld, abstract_state, gen_edge_view, gen_node_view, gen_op, idx, init_value_ops, swarm  # noqa: E402
from ..refmodule import Reject, Unspec  # noqa: E402
from ..runops import do_persist  # noqa: E402
from ..seedtree import stream  # noqa: E402
from ..shapes import gen_any_shape, gen_network_shape  # noqa: E402

PROPERTY = "C11"
LEVEL = "exploration"
RUNS = {"quick": 480, "thorough": 12000}
WALL = {"quick": 900, "thorough": 4 * 3600}
LIST_FIELDS = ["ops"]
STUBS = ["pickle buffer / deepcopy (persist fault)"]
ASSUMPTIONS = ["RefModule's view algebra (DESIGN.md 3.3): global index = position; local index = dense rank within the parent over what is in view; "
               "an edge is in view iff both ends are; edge() is asserted only in the documented forms (global scope, or on a synapse-type view); "
               "loc exactly at an interior compartment boundary and boolean masks of ambiguous length are not asserted"]

MUTATORS = ["set", "insert", "record", "stimulate", "clamp", "group", "move", "delete_recordings", "delete_stimuli", "make_trainable"]
SETUP = ["insert", "connect", "group", "set"]


def generate(seed, tier="quick"):
    r = stream(seed, "shape")
    shape = gen_network_shape(r, r.randint(2, 4), 4, 3) if r.random() < 0.6 else gen_any_shape(r)
    o = stream(seed, "ops")
    cfg = {"L": o.randint(3, 6), "channels": o.sample(mech.CHANNELS, o.randint(2, 4)), "synapses": o.sample(mech.SYNAPSES, o.randint(1, 3)), "max_edges": 6}
    dw = DryWorld(shape)
    ops = []
    for op in init_value_ops(o, dw.ref)[:1]:
        dw.dry_apply(op)
        ops.append(op)
    sw = {k: 2 for k in SETUP}
    for _ in range(o.randint(2, 8)):
        op = gen_op(o, dw, sw, cfg)
        if op is not None and dw.dry_apply(op) != "unspec":
            ops.append(op)
    mw = swarm(o, MUTATORS, keep=0.6)
    persisted = 0
    for _ in range(o.randint(8, 22)):
        k = o.random()
        if k < 0.45:
            ops.append({"op": "view", "view": gen_chain(o, dw.ref)})
        elif k < 0.55:
            ops.append({"op": "lazy", "idx": [idx(o, 3, forms=("int", "int", "list", "range", "slice", "all", "arr")) for _ in range(o.randint(1, 4))],
                        "prefix": gen_prefix(o, dw.ref)})
        elif k < 0.65:
            ops.append({"op": "iter", "prefix": gen_prefix(o, dw.ref), "path": [o.randrange(8) for _ in range(o.randint(1, 3))], "scope": o.choice([None, None, "global"])})
        elif k < 0.69 and persisted < 2:
            ops.append({"op": "persist", "how": o.choice(["pickle", "deepcopy"])})
            persisted += 1
            dw.epoch += 1
        elif k < 0.80:
            # view handles kept in variables by the session: created once, used by later calls
            hid = o.randrange(3)
            valid = [i_ for i_, h_ in dw.handles.items() if h_["epoch"] == dw.epoch]
            kk = o.random()
            if not valid or kk < 0.3:
                op = {"op": "make_handle", "id": hid, "view": gen_node_view(o, dw.ref)}
                if dw.dry_apply(op) == "accept":
                    ops.append(op)
                    if (dw.ref.recordings or dw.ref.externals) and o.random() < 0.5:
                        # delete through the fresh handle, then keep selecting through the same handle object
                        d = {"op": o.choice(["delete_recordings", "delete_stimuli", "delete_clamps"]), "view": [["handle", hid]]}
                        if d["op"] == "delete_clamps":
                            d["state"] = None
                        if dw.dry_apply(d) == "accept":
                            ops.append(d)
                        ops.append({"op": "view", "view": [["handle", hid]] + gen_node_view(o, dw.ref)[:2]})
            else:
                hid = o.choice(valid)
                kind = o.choice(["group", "group", "set", "record", "stimulate", "move", "view", "view"])
                hv = [["handle", hid]] + ([[o.choice(["branch", "comp"]), idx(o, 2)]] if o.random() < 0.3 else [])
                if kind == "view":
                    ops.append({"op": "view", "view": hv})
                    continue
                if kind == "group":
                    op = {"op": "group", "view": hv, "name": o.choice(["g1", "g2", "g3", "g4"])}
                elif kind == "set":
                    op = {"op": "set", "view": hv, "key": o.choice(["radius", "length", "capacitance", "v"]), "val": {"seed": o.randrange(1 << 30)}}
                elif kind == "record":
                    op = {"op": "record", "view": hv, "state": "v"}
                elif kind == "stimulate":
                    op = {"op": "stimulate", "view": hv, "len": cfg["L"], "seed": o.randrange(1 << 30), "two_d": False}
                else:
                    op = {"op": "move", "view": hv, "xyz": [1.0, 2.0, 3.0]}
                if dw.dry_apply(op) != "unspec":
                    ops.append(op)
        else:
            op = gen_op(o, dw, mw, cfg)
            if op is not None and dw.dry_apply(op) != "unspec":
                ops.append(op)
    return {"prop": PROPERTY, "shape": shape, "ops": ops}


def gen_prefix(o, ref):
    """Optional view on which lazy indexing / iteration starts (a cell of a network, ...)."""
    if ref.kind == "network" and o.random() < 0.4:
        return [["cell", idx(o, 2, forms=("int", "list"))]]
    return []


def gen_chain(o, ref):
    k = o.random()
    if ref.edges and k < 0.25:
        v = gen_edge_view(o, ref)
        if o.random() < 0.3:
            v = v + [[o.choice(["cell", "branch", "comp"]), idx(o, 2)]]
        return v
    if ref.edges and k < 0.32:
        return [["scope", "global"], ["edge", idx(o, 3, forms=("int", "list", "all", "range"))]]
    if ref.edges and ref.kind == "network" and k < 0.42:
        # a synapse type asked of a *view* (net.cell([0, 1]).TestSynapse): the synapses of that type among those in view
        v = [["cell", idx(o, 2, forms=("int", "list", "list"))], ["syn", o.choice([s_["name"] for s_ in ref.syns])]]
        if o.random() < 0.3:
            v.append(["edge", idx(o, 3, forms=("int", "list", "all"))])
        return v
    v = gen_node_view(o, ref)
    if o.random() < 0.2:
        v = v + [["select_nodes", idx(o, 3, forms=("int", "list", "all"))]]
    if ref.chans and o.random() < 0.1:
        v = v + [["channel", o.choice(list(ref.chans))]]
    if ref.groups and o.random() < 0.1:
        v = v + [["group", o.choice(sorted(ref.groups))]]
    return v


def compare_view(w, v, rv, what, i):
    """view_rows + view_local_ranks for one jaxley view against the reference view."""
    got_n = [int(x) for x in v.nodes.index.tolist()]
    if got_n != list(rv.N):
        w.violate("view_rows", f"{what}: view holds compartments {got_n}, the chain denotes {list(rv.N)}", i)
        return False
    got_e = [int(x) for x in v.edges.index.tolist()] if len(v.edges) else []
    if got_e != list(rv.E):
        w.violate("view_rows", f"{what}: view holds synapses {got_e}, the chain denotes {list(rv.E)}", i)
        return False
    inv = [int(x) for x in np.asarray(v._nodes_in_view).tolist()]
    if inv != list(rv.N):
        w.violate("view_rows", f"{what}: _nodes_in_view {inv} != displayed rows {list(rv.N)}", i)
        return False
    loc = rv.local_cols()
    for key in ("cell", "branch", "comp"):
        got = [int(x) for x in v.nodes[f"local_{key}_index"].tolist()]
        exp = [loc[key][n] for n in rv.N]
        if got != exp:
            w.violate("view_local_ranks", f"{what}: local_{key}_index {got}, dense ranks within parent are {exp}", i)
            return False
        gcol = {"cell": w.ref.cell, "branch": w.ref.branch, "comp": list(range(w.ref.n))}[key]
        gg = [int(x) for x in v.nodes[f"global_{key}_index"].tolist()]
        if gg != [gcol[n] for n in rv.N]:
            w.violate("view_rows", f"{what}: global_{key}_index {gg} expected {[gcol[n] for n in rv.N]}", i)
            return False
    return True


def probe_view(w, op, i):
    try:
        rv, thunk, calls = w.resolve_view(op["view"])
    except Unspec:
        w.bump("probe_view_unspecified")
        return
    except Reject as e:
        th = getattr(e, "thunk", None)
        raised = False
        got = None
        if th is not None:
            try:
                with quiet():
                    got = th()
            except Exception as ex:  # noqa: BLE001
                if exc_in_harness(ex):
                    raise HarnessError(str(ex)) from ex
                raised = True
        else:
            raised = True
        w.bump("fault_reject" if raised else "reject_not_raised")
        if not raised and str(e) == "nothing in view" and got is not None:
            # documented refusal ("Nothing in view. Check your indices."): the chain denotes no compartment at all,
            # so a non-empty view is a wrong selection, not a tolerated acceptance
            rows = [int(x) for x in got.nodes.index.tolist()]
            w.violate("view_rows", f"chain {getattr(e, 'calls', None)} denotes no compartment but the view holds {rows[:12]}", i)
        return
    try:
        with quiet():
            v = thunk()
    except Exception as e:  # noqa: BLE001
        if exc_in_harness(e):
            raise HarnessError(f"view {calls}: {e}") from e
        w.violate("unexpected_refusal", f"chain {calls} raised {exc_text(e)} but denotes compartments {rv.N[:8]}", i)
        return
    w.bump("oracle_view")
    compare_view(w, v, rv, f"chain {calls}", i)
    w.chain.add("view", {"calls": calls, "rows": list(rv.N), "edges": list(rv.E)})


def probe_lazy(w, op, i):
    """m[i, j, k] must denote the same rows as m.cell(i).branch(j).comp(k)."""
    ref = w.ref
    try:
        rv, thunk, calls = w.resolve_view(op["prefix"])
    except (Reject, Unspec):
        return
    levels = rv.levels()
    if op["prefix"]:
        levels = levels[1:]  # prefix is a cell view: children are branch, comp
    idxs = op["idx"]
    if len(idxs) > len(levels):
        try:
            with quiet():
                thunk()[tuple(0 for _ in idxs)]
            w.bump("reject_not_raised")
        except Exception as e:  # noqa: BLE001
            if exc_in_harness(e):
                raise HarnessError(str(e)) from e
            w.bump("fault_reject")
        return
    concrete = []
    cur = rv
    try:
        for lv, spec in zip(levels, idxs):
            col = cur.col(lv)
            ci, vals = resolve_idx(spec, col.values())
            concrete.append(ci)
            cur = cur.at(lv, vals)
    except Reject:
        try:
            with quiet():
                thunk()[tuple(concrete)]
            w.bump("reject_not_raised")
        except Exception as e:  # noqa: BLE001
            if exc_in_harness(e):
                raise HarnessError(str(e)) from e
            w.bump("fault_reject")
        return
    except Unspec:
        return
    try:
        with quiet():
            base = thunk()
            a = base[tuple(concrete)] if len(concrete) > 1 else base[concrete[0]]
            b = base
            for lv, ci in zip(levels, concrete):
                b = getattr(b, lv)(ci)
    except Exception as e:  # noqa: BLE001
        if exc_in_harness(e):
            raise HarnessError(str(e)) from e
        w.violate("unexpected_refusal", f"lazy index {[jsonable_idx(c) for c in concrete]} raised {exc_text(e)}", i)
        return
    w.bump("oracle_lazy")
    la, lb = [int(x) for x in a.nodes.index.tolist()], [int(x) for x in b.nodes.index.tolist()]
    if la != lb:
        w.violate("lazy_iter_agree", f"m[{[jsonable_idx(c) for c in concrete]}] holds {la} but the method form holds {lb}", i)
        return
    compare_view(w, a, cur, f"lazy {[jsonable_idx(c) for c in concrete]}", i)
    w.chain.add("lazy", {"idx": [jsonable_idx(c) for c in concrete], "rows": list(cur.N)})


def probe_iter(w, op, i):
    """the k-th item of iteration denotes the same rows as the method form with the k-th index value."""
    try:
        rv, thunk, calls = w.resolve_view(op["prefix"] + ([["scope", op["scope"]]] if op.get("scope") else []))
    except (Reject, Unspec):
        return
    levels = rv.levels()
    if op["prefix"]:
        levels = levels[1:]
    try:
        with quiet():
            v = thunk()
            cur = rv
            for depth, k in enumerate(op["path"]):
                if depth >= len(levels):
                    break
                lv = levels[depth]
                col = cur.col(lv)
                uniq = []
                for n in cur.N:
                    if col[n] not in uniq:
                        uniq.append(col[n])
                items = list(v) if depth == 0 and not op["prefix"] and False else list(getattr(v, {"cell": "cells", "branch": "branches", "comp": "comps"}[lv]))
                if len(items) != len(uniq):
                    w.violate("lazy_iter_agree", f"iteration over {lv}s yields {len(items)} items, the view has {len(uniq)} distinct {lv} indices", i)
                    return
                kk = k % len(uniq)
                v = items[kk]
                cur = cur.at(lv, [uniq[kk]])
                w.bump("oracle_iter")
                if not compare_view(w, v, cur, f"item {kk} of iteration over {lv}s", i):
                    return
    except Exception as e:  # noqa: BLE001
        if exc_in_harness(e):
            raise HarnessError(str(e)) from e
        w.violate("unexpected_refusal", f"iteration raised {exc_text(e)}", i)
        return
    w.chain.add("iter", {"path": op["path"], "rows": list(cur.N)})


def execute(program):
    w = World(program["shape"])
    states, transitions = set(), set()
    for i, op in enumerate(program["ops"]):
        if w.stopped:
            break
        kind = op["op"]
        s0 = snap.digest(abstract_state(w.ref))[:12]
        if kind == "view":
            probe_view(w, op, i)
        elif kind == "lazy":
            probe_lazy(w, op, i)
        elif kind == "iter":
            probe_iter(w, op, i)
        elif kind == "persist":
            do_persist(w, op, i)
        else:
            before = len(w.violations)
            apply_op(w, op, i)
            for v in w.violations[before:]:
                if v["oracle"] == "tables_conform" and kind in MUTATORS:
                    v["oracle"] = "mutation_confined"
        states.add(s0)
        transitions.add(f"{s0}:{kind}")
        if w.violations:
            break
    faults = sum(v for k, v in w.stats.items() if k.startswith("fault_"))
    probes = sum(w.stats.get(k, 0) for k in ("oracle_view", "oracle_lazy", "oracle_iter"))
    return {"violations": w.violations, "stats": w.stats, "digest": w.chain.h, "events": len(w.chain.events), "sim_time_ms": 0.0,
            "integrate_calls": 0, "abstract_states": sorted(states), "transitions": sorted(transitions),
            "nontrivial": probes >= 3 and faults > 0, "stopped": w.stopped}


def simplify(program):
    for i, op in enumerate(program["ops"]):
        for field in ("view", "prefix", "idx", "path"):
            if op.get(field):
                for j in range(len(op[field])):
                    q = copy.deepcopy(program)
                    del q["ops"][i][field][j]
                    yield q
        if op.get("name"):
            q = copy.deepcopy(program)
            q["ops"][i]["name"] = None
            yield q
