"""C08 — recordings and inputs land on the right row, compartment and time step.

Workload: module with attributable values (every compartment a distinct v, every gate / synapse a distinct
state); a set of independent *set-up tasks* (record on compartment states, channel currents, synaptic states and
currents with interleaved synapse types; stimulate 1-D and 2-D, several on one compartment; clamp on v and
gates); input lengths shorter, equal and longer than t_max; all delta_t.
The scheduler interleaves the tasks' calls (fault kind `reorder`); the same tasks also run in canonical order.
Further executions of the same set-up: inputs fed through data_stimulate / data_clamp; t_max replaced by
explicit zero-padding / truncation.  Faults: reorder, reject (unknown state, wrong batch) between tasks, knob.
Oracles: row_shape, row_attribution, refsim_equal (timing, area conversion, summation), charge_accounting
(closed form on channel-free modules), clamp_alignment, interleaving_invariant, data_api_equal,
tmax_pad_truncate."""
import copy
from math import pi

from .. import env

env.setup()
import jax.numpy as jnp  # noqa: E402
import numpy as np  # noqa: E402

from .. import mech, refsim, simrun, snap  # noqa: E402
from ..driver import HarnessError, World, exc_in_harness, exc_text, is_backend_refusal, quiet, ref_from_module  # noqa: E402
from ..ops import apply_op, stim_rows  # noqa: E402
from ..program import DTS, DryWorld, abstract_state, gen_op, init_value_ops  # noqa: E402
from ..refmodule import Reject, Unspec, isnan  # noqa: E402
from ..runops import TOL_REF, TOL_SAME, nan_rows  # noqa: E402
from ..seedtree import stream  # noqa: E402
from ..shapes import gen_any_shape, gen_network_shape  # noqa: E402

PROPERTY = "C08"
LEVEL = "exploration"
RUNS = {"quick": 112, "thorough": 3000}
WALL = {"quick": 1500, "thorough": 6 * 3600}
LIST_FIELDS = ["ops", "tasks"]
STUBS = ["borrowed mechanism kinetics inside RefSim (update_states / compute_current of jaxley's channel and synapse classes)"]
ASSUMPTIONS = [
    "RefSim scheme assumptions: gates advanced with the voltage at the start of the step, then voltage solved with the advanced gates; "
    "membrane currents enter through the 1e-3 mV secant; non-voltage clamps applied after that step's currents were formed",
    "a second clamp of the same state on the same row and clamps of synaptic *currents* are not generated",
]


def generate(seed, tier="quick"):
    r = stream(seed, "shape")
    shape = gen_network_shape(r, r.randint(2, 3), 3, 3, same_layout=r.random() < 0.6) if r.random() < 0.55 else gen_any_shape(r, 3, 3, 3)
    o = stream(seed, "ops")
    Ls = o.randint(3, 14)
    cfg = {"L": Ls, "channels": o.sample(mech.CHANNELS, o.randint(1, 3)), "synapses": o.sample(mech.SYNAPSES, o.randint(2, 3)), "max_edges": 6, "p_syn_clamp": 0.35}
    passive = o.random() < 0.25
    dw = DryWorld(shape)
    ops = []
    for op in init_value_ops(o, dw.ref):
        dw.dry_apply(op)
        ops.append(op)
    sw = {"set": 1, "insert": 0 if passive else 3, "connect": 0 if passive else 4, "group": 1}
    sw = {k: v for k, v in sw.items() if v}
    for _ in range(o.randint(2, 10)):
        op = gen_op(o, dw, sw, cfg)
        if op is not None and dw.dry_apply(op) == "accept":
            ops.append(op)
    # attributable gate and synapse values: one array-set per state / parameter column
    for name, c in list(dw.ref.chans.items()):
        for col in list(c["states"]) + [p for p in c["params"] if o.random() < 0.3]:
            op = {"op": "set", "view": [["channel", name]], "key": col, "val": {"seed": o.randrange(1 << 30), "array": True}}
            if dw.dry_apply(op) == "accept":
                ops.append(op)
    for s_ in list(dw.ref.syns):
        for col in list(s_["states"]) + list(s_["params"]):
            op = {"op": "set", "view": [["syn", s_["name"]]], "key": col, "val": {"seed": o.randrange(1 << 30), "array": True}}
            if dw.dry_apply(op) == "accept":
                ops.append(op)
    # tasks
    tasks = []
    tw = {"record": 5, "stimulate": 3, "clamp": 0 if passive and o.random() < 0.5 else 2}
    tw = {k: v for k, v in tw.items() if v}
    if o.random() < 0.4:
        # deletions through views between the tasks (history): the survivors must keep their own signals and rows
        tw.update({"delete_stimuli": 1, "delete_clamps": 1, "delete_recordings": 1})
    clamp_len = o.choice([Ls, Ls, Ls + o.randint(1, 4)])
    for _ in range(o.randint(3, 10)):
        op = gen_op(o, dw, tw, cfg)
        if op is None:
            continue
        if op["op"] == "clamp":
            op["len"] = clamp_len
        res = dw.dry_apply(op)
        if res == "unspec":
            continue
        tasks.append(op)
    # every synapse of a type as one task: with interleaved types each row must still report its own synapse
    for s_ in list(dw.ref.syns):
        if o.random() < 0.6:
            st = o.choice(list(s_["states"]) + [f"i_{s_['name']}"])
            op = {"op": "record", "view": [["syn", s_["name"]]], "state": st}
            if dw.dry_apply(op) == "accept":
                tasks.insert(o.randrange(len(tasks) + 1), op)
    if not dw.ref.recordings:
        op = {"op": "record", "view": [], "state": "v"}
        dw.dry_apply(op)
        tasks.append(op)
    has_clamp = any(k != "i" for k in dw.ref.externals)
    has_stim = "i" in dw.ref.externals
    # steps relative to input lengths: None (use inputs), shorter, equal, longer (longer only without clamps)
    choices = [None] if (has_stim or has_clamp) and (not (has_stim and has_clamp) or clamp_len == Ls) else []
    top = min(Ls, clamp_len) if has_clamp else Ls + 6
    choices += [o.randint(2, max(2, top)), Ls if (not has_clamp or clamp_len >= Ls) else min(Ls, clamp_len)]
    T = o.choice(choices)
    order = list(range(len(tasks)))
    o.shuffle(order)
    return {"prop": PROPERTY, "shape": shape, "ops": ops, "tasks": tasks, "order": order, "T": T, "dt": o.choice(DTS),
            "solver": o.choice(["bwd_euler", "bwd_euler", "crank_nicolson"]), "vsolver": o.choice(["jaxley.stone", "jaxley.thomas", "jax.sparse"]),
            "mode": o.choice(["eager", "eager", "jit"]), "data_api": o.random() < 0.6, "explicit_tmax": o.random() < 0.6,
            "geometry_at_runtime": o.choice([0, 0, 1, 2, 3]), "mixed_static_data": o.random() < 0.5}


def build(program, task_order, rewrite=None):
    w = World(program["shape"])
    w.sim_ms = 0.0
    i = -1
    for i, op in enumerate(program["ops"]):
        if w.stopped or w.violations:
            return w
        apply_op(w, op, i)
    w.task_outcome = {}
    for k in task_order:
        if k >= len(program["tasks"]):
            continue
        op = program["tasks"][k]
        if rewrite is not None:
            op = rewrite(op, k)
            if op is None:
                continue
        if w.stopped or w.violations:
            return w
        i += 1
        w.task_outcome[k] = apply_op(w, op, i).get("outcome")
    return w


def integ(w, program, steps, **extra):
    kw = dict(steps=steps, dt=program["dt"], solver=program["solver"], vsolver=program["vsolver"], mode=program["mode"])
    kw.update(extra)
    try:
        out = simrun.integrate(w.m, **kw)
    except Exception as e:  # noqa: BLE001
        if exc_in_harness(e):
            raise HarnessError(f"{type(e).__name__}: {e}") from e
        if is_backend_refusal(e) and kw["vsolver"] != "jax.sparse":
            w.bump("probe_backend_refusal")
            program["vsolver"] = "jax.sparse"  # all executions of this run use the accepted backend
            kw["vsolver"] = "jax.sparse"
            out = simrun.integrate(w.m, **kw)
        else:
            raise
    w.bump("integrate_calls")
    return out


def n_steps(ref, T):
    if T is not None:
        return T
    lens = set(len(a) for lst in ref.externals.values() for _, a in lst)
    return lens.pop() if len(lens) == 1 else None


def execute(program):
    program = copy.deepcopy(program)
    ntasks = len(program["tasks"])
    canonical = list(range(ntasks))
    w = build(program, canonical)
    nidx = len(program["ops"]) + ntasks
    states = [snap.digest(abstract_state(w.ref))[:12]]

    def res():
        faults = sum(v for k, v in w.stats.items() if k.startswith("fault_"))
        return {"violations": w.violations, "stats": w.stats, "digest": w.chain.h, "events": len(w.chain.events), "sim_time_ms": w.sim_ms,
                "integrate_calls": w.stats.get("integrate_calls", 0), "abstract_states": states,
                "transitions": sorted(set(f"{states[0]}:{t['op']}" for t in program["tasks"])),
                "nontrivial": w.stats.get("oracle_refsim", 0) > 0 and faults > 0, "stopped": w.stopped}

    if w.stopped or w.violations or not w.ref.recordings:
        return res()
    ref = w.ref
    T = program["T"]
    steps = n_steps(ref, T)
    if steps is None:
        w.stopped = "inputs of different lengths without t_max"
        return res()
    for k, lst in ref.externals.items():
        if k != "i" and T is not None and lst and len(lst[0][1]) < T:
            w.stopped = "clamp shorter than t_max"
            return res()
    dt = program["dt"]
    try:
        out = integ(w, program, T)
    except HarnessError:
        raise
    except Exception as e:  # noqa: BLE001
        w.violate("unexpected_refusal", f"integrate raised {exc_text(e)} on an accepted history", nidx)
        return res()
    w.sim_ms += steps * dt
    nrec = len(ref.recordings)
    # 1. shape
    if out.shape != (nrec, steps + 1):
        w.violate("row_shape", f"integrate returned shape {out.shape}; {nrec} recordings and {steps} steps give ({nrec}, {steps + 1})", nidx)
        return res()
    mask = np.ones(nrec, dtype=bool)
    mask[nan_rows(ref)] = False
    # 2. attribution: column 0 is the unique initial value of the requested compartment / synapse
    cs = ref.comp_states()
    for j, (idx, st) in enumerate(ref.recordings):
        if not mask[j]:
            continue
        want = None
        if st == "v":
            want = ref.cols["v"][idx]
        elif st in ref.cols:
            want = ref.cols[st][idx]
        elif st not in cs and st in ref.edge_columns():
            want = ref.edges[idx]["vals"].get(st)
        if want is not None and not isnan(want):
            w.bump("oracle_attribution")
            if out[j, 0] != want:
                w.violate("row_attribution", f"row {j} records ({idx}, {st}); its initial value in the tables is {want!r} but column 0 shows {out[j, 0]!r}", nidx,
                          {"state_kind": "edge" if st not in cs else "node"})
                return res()
    # 3. whole matrix equals RefSim of the displayed tables
    if program["solver"] in ("bwd_euler", "crank_nicolson"):
        try:
            shown = ref_from_module(w.m)
            expect, _ = refsim.RefSim(shown, program["solver"]).run(steps, dt)
        except Exception as e:  # noqa: BLE001
            raise HarnessError(f"RefSim failed: {type(e).__name__}: {e}") from e
        w.bump("oracle_refsim")
        if not simrun.close(out[mask], expect[mask], **TOL_REF):
            d = np.nan_to_num(np.abs(out - expect), nan=0.0)
            d[~mask] = 0
            j = int(d.max(axis=1).argmax())
            kcol = int(d[j].argmax())
            w.violate("refsim_equal", f"row {j} {ref.recordings[j]} first differs from the reference simulation at column {int(np.argmax(d[j] > 1e-6))} "
                      f"(max {d[j, kcol]:.3e} at column {kcol}); steps={steps}, dt={dt}, solver={program['solver']}, voltage_solver={program['vsolver']}", nidx)
            return res()
    # 3b. closed-form charge accounting on channel-free, synapse-free modules without voltage clamps
    if not ref.chans and not ref.edges and "v" not in ref.externals:
        vrows = {idx: j for j, (idx, st) in enumerate(ref.recordings) if st == "v"}
        if len(vrows) == ref.n:
            A = np.array([2 * pi * ref.cols["radius"][c] * ref.cols["length"][c] * 1e-8 for c in range(ref.n)])
            C = A * np.array([ref.cols["capacitance"][c] for c in range(ref.n)])
            V = np.stack([out[vrows[c]] for c in range(ref.n)])
            for k in range(steps):
                inj = sum(arr[k] for _, arr in ref.externals.get("i", []) if k < len(arr)) * 1e-3 * dt
                got = float(np.sum(C * (V[:, k + 1] - V[:, k])))
                scale = float(np.sum(C * np.maximum(np.abs(V[:, k + 1]), np.abs(V[:, k]))))  # round-off scale of the sum
                if abs(got - inj) > 1e-9 * abs(inj) + 1e-11 * scale:
                    w.violate("charge_accounting", f"step {k + 1}: total membrane charge changed by {got:.6e} uC*1e-3, injected I*dt = {inj:.6e}", nidx)
                    return res()
            w.bump("oracle_charge")
    # 4. clamp alignment
    for key, lst in ref.externals.items():
        if key == "i":
            continue
        for row_, arr in lst:
            for j, (idx, st) in enumerate(ref.recordings):
                if st == key and idx == row_:
                    w.bump("oracle_clamp")
                    want = np.asarray(arr[:steps], dtype=float)
                    if not np.array_equal(out[j, 1:], want):
                        kbad = int(np.argmax(out[j, 1:] != want))
                        w.violate("clamp_alignment", f"row {j} ({idx}, {st}) is clamped; column {kbad + 1} shows {out[j, kbad + 1]!r}, clamp sample {kbad} is {want[kbad]!r}", nidx)
                        return res()
    w.chain.add("canonical", {"out": snap.arrays_digest(out), "recs": ref.recordings})
    key_rows = {(idx, st): j for j, (idx, st) in enumerate(ref.recordings)}

    # 5. interleaving invariance
    order = [k for k in program["order"] if k < ntasks]
    order += [k for k in canonical if k not in order]
    if order != canonical:
        w2 = build(program, order)
        w.bump("fault_reorder")
        for k_, v_ in w2.stats.items():
            if k_ in ("fault_reject",):
                w.bump(k_, v_)
        if w2.violations:
            w.violations.extend(w2.violations)
            return res()
        commute = (all(v_ == "accepted" for v_ in w.task_outcome.values()) and all(v_ == "accepted" for v_ in w2.task_outcome.values())
                   and not any(t_["op"].startswith("delete_") for t_ in program["tasks"]))
        if not commute:
            # a refused task (e.g. an input of another duration than the first one of its key) makes the outcome
            # legitimately order-dependent: nothing is asserted about such interleavings
            w.bump("probe_interleaving_with_refused_task")
        if not w2.stopped and commute:
            try:
                out2 = integ(w2, program, T)
            except HarnessError:
                raise
            except Exception as e:  # noqa: BLE001
                w.violate("interleaving_invariant", f"scheduled order {order} raised {exc_text(e)}; canonical order simulated", nidx)
                return res()
            rows2 = {(idx, st): j for j, (idx, st) in enumerate(w2.ref.recordings)}
            w.bump("oracle_interleaving")
            if set(rows2) != set(key_rows):
                w.violate("interleaving_invariant", f"scheduled order {order} yields recordings {sorted(rows2)} != canonical {sorted(key_rows)}", nidx)
                return res()
            perm = [rows2[tuple(x)] for x in ref.recordings]
            if out2.shape != out.shape or not simrun.close(out[mask], out2[perm][mask], **TOL_SAME):
                w.violate("interleaving_invariant", f"scheduled order {order} differs from the canonical order by {simrun.maxdiff(out[mask], out2[perm][mask]):.3e} beyond the row permutation", nidx)
                return res()
            w.chain.add("scheduled", {"order": order, "out": snap.arrays_digest(out2)})

    # 6a. data_stimulate / data_clamp == stimulate / clamp
    if program.get("data_api") and ref.externals:
        clamp_keys = [k_ for k_ in ref.externals if k_ != "i"]
        data_key = clamp_keys[0] if clamp_keys else None
        moved = {"i"} | ({data_key} if data_key else set())

        def drop_moved(op, k_=None):
            if op["op"] == "stimulate" or (op["op"] == "clamp" and op["state"] == data_key):
                return None
            return op

        w3 = build(program, canonical, rewrite=drop_moved)
        if not w3.violations and not w3.stopped:
            ds, dc = None, None
            mixed = bool(program.get("mixed_static_data"))
            with quiet():
                for j_, (t, arr) in enumerate(ref.externals.get("i", [])):
                    if mixed and j_ % 2 == 0:
                        # half of the stimuli stay attached to the module, the other half arrive through data_stimulate
                        w3.m.select(nodes=[t]).stimulate(jnp.asarray(arr), verbose=False)
                        continue
                    ds = w3.m.select(nodes=[t]).data_stimulate(jnp.asarray(arr), ds)
            if mixed and ds is not None and any(j_ % 2 == 0 for j_ in range(len(ref.externals.get("i", [])))):
                w.bump("probe_static_and_data_stimuli_mixed")
            with quiet():
                if data_key:
                    for t, arr in ref.externals[data_key]:
                        v_ = w3.m.select(nodes=[t]) if data_key in ref.comp_states() else w3.m.select(edges=[t])
                        dc = v_.data_clamp(data_key, jnp.asarray(arr), dc)
            try:
                out3 = integ(w3, program, T, data_stimuli=ds, data_clamps=dc)
            except HarnessError:
                raise
            except Exception as e:  # noqa: BLE001
                w.violate("data_api_equal", f"feeding the same inputs through data_stimulate/data_clamp raised {exc_text(e)}", nidx)
                return res()
            w.bump("oracle_data_api")
            if out3.shape != out.shape or not simrun.close(out[mask], out3[mask], **TOL_SAME):
                w.violate("data_api_equal", f"data_stimulate/data_clamp differ from stimulate/clamp by {simrun.maxdiff(out[mask], out3[mask]):.3e}", nidx)
                return res()

    # 6c. "whatever its geometry": the geometry of a stimulated compartment supplied at integrate time (data_set)
    #     must give the same simulation as the same geometry stored in the tables
    if program.get("geometry_at_runtime") and ref.externals.get("i"):
        t = ref.externals["i"][program["geometry_at_runtime"] % len(ref.externals["i"])][0]
        r2 = round(ref.cols["radius"][t] * 1.7 + 0.11, 6)
        l2 = round(ref.cols["length"][t] * 0.6 + 1.3, 6)
        with quiet():
            ps = w.m.select(nodes=[t]).data_set("radius", r2, None)
            ps = w.m.select(nodes=[t]).data_set("length", l2, ps)
        try:
            out5 = integ(w, program, T, param_state=ps)
        except HarnessError:
            raise
        except Exception as e:  # noqa: BLE001
            w.violate("charge_accounting", f"integrate with data_set geometry raised {exc_text(e)}", nidx)
            return res()
        w5 = build(program, canonical)
        for key, val in (("radius", r2), ("length", l2)):
            apply_op(w5, {"op": "set", "view": [["select_nodes", {"t": "list", "v": [t]}]], "key": key, "val": val}, nidx)
        if not w5.violations and not w5.stopped:
            out6 = integ(w5, program, T)
            w.bump("oracle_runtime_geometry")
            if out5.shape != out6.shape or not simrun.close(out5[mask], out6[mask], **TOL_SAME):
                w.violate("charge_accounting", f"stimulated compartment {t}: radius/length supplied through data_set give a result that differs by "
                          f"{simrun.maxdiff(out5[mask], out6[mask]):.3e} from the same geometry stored in the tables (the injected charge must not depend on which way the geometry arrives)", nidx)
                return res()

    # 6b. t_max == explicit zero-padding / truncation
    if program.get("explicit_tmax") and T is not None and ref.externals:
        def explicit(op, k_=None):
            if op["op"] in ("stimulate", "clamp") and w.task_outcome.get(k_) != "accepted":
                return None  # an input that was refused in the canonical execution stays out of the rewritten one
            if op["op"] in ("stimulate", "clamp"):
                q = dict(op)
                q["pattern_len"] = op["len"]
                if op["op"] == "stimulate" and op["len"] < T:
                    q["zero_from"] = op["len"]
                q["len"] = T
                return q
            return op

        w4 = build(program, canonical, rewrite=explicit)
        if not w4.violations and not w4.stopped:
            try:
                out4 = integ(w4, program, None)
            except HarnessError:
                raise
            except Exception as e:  # noqa: BLE001
                w.violate("tmax_pad_truncate", f"explicitly padded / truncated inputs raised {exc_text(e)}", nidx)
                return res()
            w.bump("oracle_tmax")
            Ls = [len(a) for lst in ref.externals.values() for _, a in lst]
            w.bump("probe_tmax_longer_than_input" if T > min(Ls) else ("probe_tmax_shorter_than_input" if T < max(Ls) else "probe_tmax_equal"))
            if out4.shape != out.shape or not simrun.close(out[mask], out4[mask], **TOL_SAME):
                w.violate("tmax_pad_truncate", f"t_max={T} steps differs from explicit zero-padding / truncation by {simrun.maxdiff(out[mask], out4[mask]):.3e}", nidx)
                return res()
    return res()


def simplify(program):
    for field, simple in (("solver", "bwd_euler"), ("dt", 0.025), ("mode", "eager"), ("vsolver", "jax.sparse"), ("data_api", False), ("explicit_tmax", False), ("geometry_at_runtime", 0), ("mixed_static_data", False)):
        if program.get(field) != simple:
            q = copy.deepcopy(program)
            q[field] = simple
            yield q
    if program["order"] != sorted(program["order"]):
        q = copy.deepcopy(program)
        q["order"] = sorted(program["order"])
        yield q
    if program["T"] and program["T"] > 2:
        q = copy.deepcopy(program)
        q["T"] = max(2, program["T"] // 2)
        yield q
    for fld in ("ops", "tasks"):
        for i, op in enumerate(program[fld]):
            if op.get("view"):
                for j in range(len(op["view"])):
                    q = copy.deepcopy(program)
                    del q[fld][i]["view"][j]
                    yield q
            if op.get("two_d"):
                q = copy.deepcopy(program)
                q[fld][i]["two_d"] = False
                yield q
            if op.get("len") and op["len"] > 2:
                q = copy.deepcopy(program)
                q[fld][i]["len"] = max(2, op["len"] // 2)
                yield q
