"""C19 — any editing history leaves a consistent module that simulates its tables.

Workload: full lifecycle alphabet on irregular cells / networks, `run` operations interspersed.
Faults: reject (calls the library must refuse, mid-history), abort (exception injected inside integrate),
persist (pickle / deepcopy round trip mid-history), knob (execution mode per run), fault-free epilogue.
Oracles: RefModule conformance + structural invariants after every operation; undo pairs; at every run the
canonical Twin and the independent RefSim; unexpected refusals."""
import copy

from .. import env

env.setup()

from .. import snap  # noqa: E402
from ..driver import World  # noqa: E402
from ..ops import apply_op  # noqa: E402
from ..program import DTS, DryWorld, abstract_state, gen_node_view, gen_op, init_value_ops, swarm  # noqa: E402
from ..runops import do_abort, do_persist, do_run  # noqa: E402
from ..seedtree import stream  # noqa: E402
from ..shapes import gen_any_shape  # noqa: E402
from .. import mech  # noqa: E402
from ..faults import ABORT_POINTS  # noqa: E402

PROPERTY = "C19"
LEVEL = "exploration"
RUNS = {"quick": 160, "thorough": 4000}
WALL = {"quick": 1500, "thorough": 6 * 3600}
LIST_FIELDS = ["ops"]
STUBS = ["pickle buffer / deepcopy (persist fault)", "SimAbort injection points inside integrate (monkeypatched)",
         "borrowed mechanism kinetics inside RefSim (update_states / compute_current of jaxley's channel and synapse classes)"]
ASSUMPTIONS = [
    "RefSim scheme assumptions: gates advanced with the voltage at the start of the step, then voltage solved with the advanced gates; "
    "membrane currents enter through the 1e-3 mV secant; non-voltage clamps applied after that step's currents were formed",
    "RefModule implements the documented editing semantics of DESIGN.md Appendix A; calls outside it stop the history (counted, never reported)",
    "exhaustive bounded-depth enumeration of histories (mentioned in the property's quantifier) is NOT delivered: seeded search only",
]


def gen_run(r, dw, cfg, allow_ckpt=True):
    ref = dw.ref
    has_clamp = any(k != "i" for k in ref.externals)
    L = cfg["L"]
    if ref.externals and r.random() < 0.5:
        steps = None
    else:
        steps = r.randint(2, L) if has_clamp else r.randint(2, cfg["max_steps"])
    n = steps if steps is not None else L
    op = {"op": "run", "steps": steps, "dt": r.choice(DTS), "solver": r.choice(["bwd_euler", "bwd_euler", "crank_nicolson"]),
          "vsolver": r.choice(["jaxley.stone", "jaxley.stone", "jaxley.thomas", "jax.sparse"]),
          "mode": r.choice(["eager", "eager", "eager", "jit"]), "use_params": r.random() < 0.6}
    if allow_ckpt and r.random() < 0.25:
        a = r.randint(1, n)
        b = -(-n // a)
        op["ckpt"] = [a, b] if r.random() < 0.7 else [a * b]
    return op


def generate(seed, tier="quick"):
    r = stream(seed, "shape")
    shape = gen_any_shape(r)
    o = stream(seed, "ops")
    cfg = {"L": o.randint(4, 16), "max_steps": 20,
           "channels": o.sample(mech.CHANNELS, o.randint(2, len(mech.CHANNELS))),
           "synapses": o.sample(mech.SYNAPSES, o.randint(1, 3)), "p_syn_clamp": 0.25}
    weights = swarm(o)
    fault_rate = o.choice([0.0, 0.08, 0.15])
    dw = DryWorld(shape)
    ops = []
    for op in init_value_ops(o, dw.ref):
        dw.dry_apply(op)
        ops.append(op)
    nops = o.randint(4, 24)
    runs = 0
    faults_left = 3
    for _ in range(nops):
        k = o.random()
        if faults_left and k < fault_rate:
            kind = o.choice(["persist", "persist", "abort"])
            if kind == "persist":
                ops.append({"op": "persist", "how": o.choice(["pickle", "deepcopy"])})
                faults_left -= 1
                dw.epoch += 1  # view handles of the replaced module are gone
            elif dw.ref.recordings:
                op = gen_run(o, dw, cfg, allow_ckpt=False)
                op.update({"op": "abort", "point": o.choice(ABORT_POINTS), "use_params": False})
                ops.append(op)
                faults_left -= 1
            continue
        if runs < 2 and k > 0.9 and dw.ref.recordings:
            ops.append(gen_run(o, dw, cfg))
            runs += 1
            continue
        if k > 0.82 and k <= 0.9:
            # view objects kept in variables by the session and used by later calls (object identity is part of a history)
            valid = [i_ for i_, h_ in dw.handles.items() if h_["epoch"] == dw.epoch]
            if not valid or o.random() < 0.35:
                op = {"op": "make_handle", "id": o.randrange(3), "view": gen_node_view(o, dw.ref)}
            else:
                hv = [["handle", o.choice(valid)]]
                kind = o.choice(["group", "set", "record", "stimulate", "clamp", "move", "delete_then_train", "delete_then_train"])
                if kind == "group":
                    op = {"op": "group", "view": hv, "name": o.choice(["g1", "g2", "g3"])}
                elif kind == "set":
                    op = {"op": "set", "view": hv, "key": o.choice(["radius", "length", "capacitance", "axial_resistivity", "v"]), "val": {"seed": o.randrange(1 << 30)}}
                elif kind == "record":
                    op = {"op": "record", "view": hv, "state": "v"}
                elif kind == "stimulate":
                    op = {"op": "stimulate", "view": hv, "len": cfg["L"], "seed": o.randrange(1 << 30), "two_d": False}
                elif kind == "clamp":
                    op = {"op": "clamp", "view": hv, "state": "v", "len": cfg["L"], "seed": o.randrange(1 << 30), "two_d": False}
                elif kind == "delete_then_train":
                    # the session keeps using the view after a deletion made through it (which refreshes the view object):
                    # it must still share parameters the way the view the user created did, and still resolve .edge() etc.
                    op0 = {"op": o.choice(["delete_recordings", "delete_stimuli", "delete_clamps"]), "view": hv}
                    if dw.dry_apply(op0) != "unspec":
                        ops.append(op0)
                    op = {"op": "make_trainable", "view": hv, "key": o.choice(["radius", "length", "capacitance", "axial_resistivity"]), "init": "float",
                          "seed": o.randrange(1 << 30)}
                else:
                    op = {"op": "move", "view": hv, "xyz": [round(o.uniform(-9, 9), 2) for _ in range(3)]}
            if dw.dry_apply(op) != "unspec":
                ops.append(op)
            continue
        op = gen_op(o, dw, weights, cfg)
        if op is None:
            continue
        res = dw.dry_apply(op)
        if res == "unspec":
            continue  # never emit a call whose outcome is outside the documented semantics
        ops.append(op)
    if o.random() < 0.3:
        # view-object block: a view spanning several branches (or cells, or synapses) is kept in a variable, a deletion
        # is made through it (which refreshes the view object in place) and the same object is used again
        hid = 3
        if dw.ref.edges and o.random() < 0.4:
            syn_ = o.choice([s_["name"] for s_ in dw.ref.syns])
            blk = [{"op": "make_handle", "id": hid, "view": [["syn", syn_], ["edge", "all"]] if o.random() < 0.5 else [["syn", syn_]]},
                   {"op": o.choice(["delete_recordings", "delete_stimuli"]), "view": [["handle", hid]]},
                   {"op": "set", "view": [["handle", hid], ["edge", {"t": "int", "v": o.randrange(64)}]],
                    "key": o.choice([k_ for s_ in dw.ref.syns if s_["name"] == syn_ for k_ in s_["params"]]), "val": {"seed": o.randrange(1 << 30)}}]
        else:
            lvl = "cell" if dw.ref.kind == "network" and o.random() < 0.5 else "branch"
            blk = [{"op": "make_handle", "id": hid, "view": [[lvl, o.choice(["all", {"t": "list", "v": [o.randrange(64) for _ in range(3)]}])]]},
                   {"op": o.choice(["delete_recordings", "delete_stimuli", "delete_clamps"]), "view": [["handle", hid]]},
                   {"op": "make_trainable", "view": [["handle", hid]], "key": o.choice(["radius", "length", "capacitance", "axial_resistivity"]),
                    "init": "float", "seed": o.randrange(1 << 30)}]
        for op in blk:
            if dw.dry_apply(op) == "unspec":
                break
            ops.append(op)
    if dw.ref.edges and o.random() < 0.35:
        # trainable block: compartment *and* synaptic parameters trainable at the same time, then deletion through a view
        # (a view has to sort the trainables by what their indices refer to), then more of the same
        from ..program import gen_edge_view, settable_keys

        for _ in range(o.randint(2, 4)):
            if o.random() < 0.5:
                key = o.choice(dw.ref.edge_columns())
                syn = [s_["name"] for s_ in dw.ref.syns if key in s_["params"] or key in s_["states"]][0]
                op = {"op": "make_trainable", "view": gen_edge_view(o, dw.ref, syn), "key": key, "init": o.choice([None, "float"]), "seed": o.randrange(1 << 30)}
            else:
                op = {"op": "make_trainable", "view": gen_node_view(o, dw.ref), "key": o.choice(settable_keys(dw.ref)), "init": o.choice([None, "float"]), "seed": o.randrange(1 << 30)}
            if dw.dry_apply(op) != "unspec":
                ops.append(op)
        for _ in range(o.randint(1, 2)):
            op = {"op": "delete_trainables", "view": gen_node_view(o, dw.ref) if o.random() < 0.7 else gen_edge_view(o, dw.ref)}
            if dw.dry_apply(op) != "unspec":
                ops.append(op)
    # fault-free epilogue: a recording if none exists, then one plain run
    if not dw.ref.recordings:
        op = {"op": "record", "view": [["select_nodes", {"t": "int", "v": o.randrange(64)}]], "state": "v"}
        dw.dry_apply(op)
        ops.append(op)
    ep = gen_run(o, dw, cfg)
    ep.update({"mode": "eager", "ckpt": None, "epilogue": True})
    ops.append(ep)
    return {"prop": PROPERTY, "shape": shape, "ops": ops, "cfg": {"L": cfg["L"]}}


def execute(program):
    w = World(program["shape"])
    w.sim_ms = 0.0
    states = set()
    transitions = set()
    oracle_ops = 0
    for i, op in enumerate(program["ops"]):
        if w.stopped:
            break
        kind = op["op"]
        s0 = snap.digest(abstract_state(w.ref))[:12]
        if kind == "run":
            res = do_run(w, op, i)
            oracle_ops += res.get("outcome") == "accepted"
        elif kind == "persist":
            do_persist(w, op, i)
            d = _conform_after_persist(w, i)
        elif kind == "abort":
            do_abort(w, op, i)
        else:
            undo = _undo_probe(w, op, i)
            apply_op(w, op, i)
        states.add(s0)
        transitions.add(f"{s0}:{kind}")
        if w.violations:
            break
    faults = sum(v for k, v in w.stats.items() if k.startswith("fault_"))
    return {
        "violations": w.violations,
        "stats": w.stats,
        "digest": w.chain.h,
        "events": len(w.chain.events),
        "sim_time_ms": w.sim_ms,
        "integrate_calls": w.stats.get("integrate_calls", 0),
        "abstract_states": sorted(states),
        "transitions": sorted(transitions),
        "nontrivial": faults > 0 and oracle_ops > 0,
        "stopped": w.stopped,
    }


def _conform_after_persist(w, i):
    from ..driver import conform

    d = conform(w.ref, w.m)
    if d:
        w.violate("copy_equal", "restored module does not display the model's tables: " + "; ".join(d[:4]), i)
    return d


def _undo_probe(w, op, i):
    """undo_restores: for an accepted insert / record / stimulate / make_trainable, run the pair (op; inverse) on a
    deep copy of the module and compare its tables with the tables before.  Cheap (no simulation)."""
    import copy as _copy

    from ..driver import quiet
    from ..refmodule import Reject, Unspec

    kind = op["op"]
    if kind not in ("insert", "record", "stimulate", "clamp", "make_trainable") or (i % 3) != 0:
        return
    ref = w.ref
    try:
        rv, _, _ = w.resolve_view(op["view"])
    except (Reject, Unspec):
        return
    if kind == "insert":
        name = op.get("name") or op["cls"]
        if name in ref.chans:
            return  # re-insert: parameters of rows that already had the channel are unspecified
        desc = mech.chan_desc(op["cls"], op.get("name"))
        others = set()
        for c in ref.chans.values():
            others |= set(c["params"]) | set(c["states"])
        if (set(desc["params"]) | set(desc["states"])) & others:
            return  # shared column: Appendix A leaves the overwritten value unspecified
        if desc["current"] in ref.currents:
            pass
    if kind in ("record",) and ref.recordings:
        return
    if kind in ("stimulate", "clamp") and ref.externals:
        return
    if kind == "make_trainable" and ref.trainables:
        return
    try:
        m2 = _copy.deepcopy(w.m)
    except Exception:  # noqa: BLE001  (a module that cannot be copied is C18's business; the probe is skipped)
        w.bump("probe_deepcopy_failed")
        return
    before = snap.snapshot(m2, with_xyzr=False)
    w2 = World.__new__(World)
    w2.__dict__.update({"shape": w.shape, "m": m2, "ref": w.ref.clone(), "violations": [], "stats": {}, "chain": snap.Chain(), "stopped": None,
                        "handles": {}, "epoch": 0, "io_epoch": 0})
    out = apply_op(w2, op, i, check=False)
    if out.get("outcome") != "accepted":
        return
    try:
        with quiet():
            if kind == "insert":
                _, thunk, _ = w2.resolve_view(op["view"])
                thunk().delete_channel(mech.make_channel(op["cls"], op.get("name")))
            elif kind == "record":
                m2.delete_recordings()
            elif kind == "stimulate":
                m2.delete_stimuli()
            elif kind == "clamp":
                m2.delete_clamps()
            elif kind == "make_trainable":
                m2.delete_trainables()
    except Exception as e:  # noqa: BLE001
        from ..driver import exc_text

        w.violate("undo_restores", f"undoing {kind} raised {exc_text(e)}", i)
        return
    after = snap.snapshot(m2, with_xyzr=False)
    w.bump("oracle_undo")
    if after != before:
        w.violate("undo_restores", f"{kind} followed by its deletion does not restore the tables: " + "; ".join(snap.diff(before, after)[:4]), i)


def simplify(program):
    ops = program["ops"]
    for i, op in enumerate(ops):
        if op["op"] in ("run", "abort"):
            for field, simple in (("mode", "eager"), ("ckpt", None), ("solver", "bwd_euler"), ("dt", 0.025), ("use_params", False)):
                if op.get(field) != simple and field in op:
                    q = copy.deepcopy(program)
                    q["ops"][i][field] = simple
                    yield q
            if op.get("steps") and op["steps"] > 2:
                q = copy.deepcopy(program)
                q["ops"][i]["steps"] = max(2, op["steps"] // 2)
                yield q
        if op.get("view"):
            for j in range(len(op["view"])):
                q = copy.deepcopy(program)
                del q["ops"][i]["view"][j]
                yield q
        if isinstance(op.get("val"), dict) and op["val"].get("array"):
            q = copy.deepcopy(program)
            q["ops"][i]["val"] = {"seed": op["val"]["seed"]}
            yield q
        if op.get("name"):
            q = copy.deepcopy(program)
            q["ops"][i]["name"] = None
            yield q
