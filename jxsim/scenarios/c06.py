"""C06 — results do not depend on how the simulation is executed; integrate does not change the module.

Workload: a lifecycle history (channels, synapses, recordings, static inputs, trainables), then a *sequence of
integrate invocations on the same module*, each with knobs drawn afresh: eager / jax.jit / jax.vmap over a batch of
trainable parameters, data_set values or data_stimulate amplitudes (compared with a sequential loop);
checkpoint_lengths drawn from factorisations [a], [a,b], [a,b,c] with product >= steps (exact and over-covering).
Faults: abort (exception injected at an internal point of integrate), rejected invocations interleaved, knob.
Oracles: mode_equal (every successful invocation equals the first plain eager un-checkpointed call),
repeat_bit_identical, module_unchanged (all public state bit-identical after every invocation, whether it
returned, was rejected or was aborted)."""
import copy
import math

from .. import env

env.setup()
import jax  # noqa: E402
import jax.numpy as jnp  # noqa: E402
import numpy as np  # noqa: E402
import jaxley as jx  # noqa: E402

from .. import faults, mech, simrun, snap  # noqa: E402
from ..driver import HarnessError, World, exc_in_harness, exc_text, is_backend_refusal, quiet  # noqa: E402
from ..ops import apply_op  # noqa: E402
from ..program import DTS, DryWorld, abstract_state, gen_op, init_value_ops  # noqa: E402
from ..runops import expected_steps, nan_rows  # noqa: E402
from ..seedtree import stream, uval  # noqa: E402
from ..shapes import gen_any_shape  # noqa: E402
from .c07 import _ckpt  # noqa: E402

PROPERTY = "C06"
LEVEL = "exploration"
RUNS = {"quick": 96, "thorough": 3000}
WALL = {"quick": 1500, "thorough": 6 * 3600}
LIST_FIELDS = ["ops", "calls"]
STUBS = ["SimAbort injection points inside integrate (monkeypatched)"]
ASSUMPTIONS = ["the first plain eager un-checkpointed call is the reference execution; tolerance 1e-9 between executions, bit equality for repeats",
               "vmap batches <= 3, compared with a sequential loop over the same values"]


def generate(seed, tier="quick"):
    r = stream(seed, "shape")
    shape = gen_any_shape(r, max_cells=3, max_branches=3, max_ncomp=3)
    o = stream(seed, "ops")
    N = o.randint(3, 16)
    cfg = {"L": N, "channels": o.sample(mech.CHANNELS, o.randint(1, 4)), "synapses": o.sample(mech.SYNAPSES, o.randint(1, 3)), "max_edges": 6, "p_syn_clamp": 0.3}
    dw = DryWorld(shape)
    ops = []
    for op in init_value_ops(o, dw.ref):
        dw.dry_apply(op)
        ops.append(op)
    sw = {"set": 2, "insert": 3, "connect": 3, "record": 4, "group": 1, "stimulate": 2, "clamp": 1, "make_trainable": 2, "init_states": 1}
    for _ in range(o.randint(4, 14)):
        op = gen_op(o, dw, sw, cfg)
        if op is not None and dw.dry_apply(op) == "accept":
            ops.append(op)
    if shape["kind"] == "network" and o.random() < 0.6:
        # wiring burst: several synapses of 2-3 interleaved types (rank within type != global edge index)
        types_ = o.sample(mech.SYNAPSES, o.randint(2, 3))
        for _ in range(o.randint(3, 6)):
            op = {"op": "connect", "pre": o.randrange(1 << 16), "post": o.randrange(1 << 16), "cls": o.choice(types_), "name": None}
            if dw.dry_apply(op) == "accept":
                ops.append(op)
        if dw.ref.edges and o.random() < 0.5:
            # a clamp and a recording of a synaptic state on the *last* synapse (its index within its type differs from
            # its global index when types are interleaved): integrate translates these indices on every invocation
            e_ = len(dw.ref.edges) - 1
            syn_ = [s_ for s_ in dw.ref.syns if s_["name"] == dw.ref.edges[e_]["type"]][0]
            if syn_["states"]:
                st_ = o.choice(sorted(syn_["states"]))
                for op in ({"op": "clamp", "view": [["select_edges", {"t": "list", "v": [e_]}]], "state": st_, "len": N, "seed": o.randrange(1 << 30), "two_d": False},
                           {"op": "record", "view": [["select_edges", {"t": "list", "v": [e_]}]], "state": st_}):
                    if dw.dry_apply(op) == "accept":
                        ops.append(op)
    if not dw.ref.recordings:
        op = {"op": "record", "view": [], "state": "v"}
        dw.dry_apply(op)
        ops.append(op)
    has_clamp = any(k != "i" for k in dw.ref.externals)
    steps = None if (dw.ref.externals and o.random() < 0.5) else (o.randint(2, N) if has_clamp else o.randint(2, 20))
    n = steps if steps is not None else N
    calls = []
    for _ in range(o.randint(3, 6)):
        k = o.random()
        if k < 0.4:
            calls.append({"kind": "knob", "mode": o.choice(["eager", "jit", "jit"]), "ckpt": _ckpt(o, n), "with_ps": o.random() < 0.5})
        elif k < 0.62:
            calls.append({"kind": "vmap", "over": o.choice(["params", "data_set", "stim"]), "batch": o.randint(1, 3), "jit": o.random() < 0.4,
                          "ckpt": _ckpt(o, n) if o.random() < 0.3 else None, "seed": o.randrange(1 << 30), "target": o.randrange(1 << 16),
                          "key": o.choice(["radius", "length", "capacitance", "axial_resistivity", "v"]), "with_ps": o.random() < 0.5})
        elif k < 0.74:
            calls.append({"kind": "repeat"})
        elif k < 0.87:
            calls.append({"kind": "abort", "point": o.choice(faults.ABORT_POINTS), "with_ps": o.random() < 0.5})
        elif k < 0.94:
            calls.append({"kind": "reject", "why": o.choice(["ckpt_too_small", "no_tmax", "clamp_short"])})
        else:
            # the same module simulated with *another* integration scheme (and back): must equal what a fresh deep copy,
            # which has never been simulated, returns for that scheme
            calls.append({"kind": "other_scheme", "mode": o.choice(["eager", "jit"])})
    return {"prop": PROPERTY, "shape": shape, "ops": ops, "N": N, "steps": steps, "dt": o.choice(DTS),
            "solver": o.choice(["bwd_euler", "bwd_euler", "crank_nicolson"]), "vsolver": o.choice(["jaxley.stone", "jaxley.thomas", "jax.sparse"]),
            "use_params": o.random() < 0.6, "calls": calls, "use_param_state": o.choice([0, 0, o.randrange(1, 1 << 20), o.randrange(1, 1 << 20)])}


def execute(program):
    w = World(program["shape"])
    w.sim_ms = 0.0
    for i, op in enumerate(program["ops"]):
        if w.stopped or w.violations:
            break
        apply_op(w, op, i)
    states = [snap.digest(abstract_state(w.ref))[:12]]
    res = lambda: {"violations": w.violations, "stats": w.stats, "digest": w.chain.h, "events": len(w.chain.events), "sim_time_ms": w.sim_ms,  # noqa: E731
                   "integrate_calls": w.stats.get("integrate_calls", 0), "abstract_states": states,
                   "transitions": sorted(set(f"{states[0]}:{c['kind']}" for c in program["calls"])),
                   "nontrivial": (w.stats.get("oracle_mode_equal", 0) + w.stats.get("oracle_vmap", 0)) > 0 and sum(v for k, v in w.stats.items() if k.startswith("fault_")) > 0,
                   "stopped": w.stopped}
    if w.stopped or w.violations:
        return res()
    ref, m = w.ref, w.m
    nidx = len(program["ops"])
    dt = program["dt"]
    steps, why = expected_steps(ref, {"steps": program["steps"]})
    if why:
        return res()
    use_params = program["use_params"]
    # `params = module.get_parameters()` is what sessions pass, also when nothing is trainable (then it is the module's
    # own, empty, list); None leaves `params` at integrate's default
    params = m.get_parameters() if use_params else None
    base = dict(steps=program["steps"], dt=dt, solver=program["solver"], vsolver=program["vsolver"])
    if program.get("use_param_state"):
        # one param_state object, built once with data_set, is handed to *every* invocation of the sequence
        # (data_set is functional: integrate must neither depend on nor modify what earlier invocations did with it)
        k_ = program["use_param_state"]
        with quiet():
            if ref.edges and k_ % 3 != 0:
                iw_ = [sum(1 for x in ref.edges[:e] if x["type"] == ed["type"]) for e, ed in enumerate(ref.edges)]  # index within type
                # prefer synapses for which translating the index twice lands elsewhere (interleaved types)
                cand = ([e for e in range(len(ref.edges)) if iw_[iw_[e]] != iw_[e]]
                        or [e for e in range(len(ref.edges)) if iw_[e] != e] or list(range(len(ref.edges))))
                e_ = cand[k_ % len(cand)]
                syn_ = [s_ for s_ in ref.syns if s_["name"] == ref.edges[e_]["type"]][0]
                key_ = sorted(syn_["params"])[k_ % len(syn_["params"])]
                lo, hi = mech.value_range(key_, syn_["params"][key_], False)
                base["param_state"] = m.select(edges=[e_]).data_set(key_, uval(k_, key_, 0, lo, hi), None)
            else:
                t_ = k_ % ref.n
                key_ = ["radius", "length", "capacitance", "axial_resistivity"][k_ % 4]
                lo, hi = mech.value_range(key_)
                base["param_state"] = m.select(nodes=[t_]).data_set(key_, uval(k_, key_, 0, lo, hi), None)
        w.bump("probe_shared_param_state")
    shared_ps = base.pop("param_state", None)
    mask = np.ones(len(ref.recordings), dtype=bool)
    mask[nan_rows(ref)] = False

    def call(check_unchanged=True, **kw):
        """One invocation; asserts module_unchanged."""
        before = snap.snapshot(m)
        args = dict(base, params=params)
        args.update(kw)
        try:
            out = simrun.integrate(m, **args)
        finally:
            after = snap.snapshot(m)
            if check_unchanged and after != before:
                w.violate("module_unchanged", "integrate changed the module: " + "; ".join(snap.diff(before, after)[:4]), nidx)
        w.bump("integrate_calls")
        w.sim_ms += steps * dt
        return out

    # reference: plain eager un-checkpointed call
    try:
        try:
            ref_out = call()
        except Exception as e:  # noqa: BLE001
            if exc_in_harness(e):
                raise
            if is_backend_refusal(e) and base["vsolver"] != "jax.sparse":
                w.bump("probe_backend_refusal")
                base["vsolver"] = "jax.sparse"
                ref_out = call()
            else:
                raise
    except HarnessError:
        raise
    except Exception as e:  # noqa: BLE001
        if exc_in_harness(e):
            raise HarnessError(f"{type(e).__name__}: {e}") from e
        w.violate("unexpected_refusal", f"integrate raised {exc_text(e)} on an accepted history", nidx)
        return res()
    if ref_out.shape != (len(ref.recordings), steps + 1):
        w.violate("row_shape", f"shape {ref_out.shape}, expected {(len(ref.recordings), steps + 1)}", nidx)
        return res()
    # When a data_set param_state is in play, invocations with and without it are interleaved; each is compared with
    # the reference of its own kind (a value that leaks from one call into a later one shows as a difference).
    refs = {False: ref_out}
    if shared_ps is not None:
        try:
            refs[True] = call(param_state=shared_ps)
        except Exception as e:  # noqa: BLE001
            if exc_in_harness(e):
                raise HarnessError(f"{type(e).__name__}: {e}") from e
            w.violate("mode_equal", f"integrate with a data_set param_state raised {exc_text(e)}", nidx)
            return res()
        again = call()
        if not np.array_equal(again, ref_out, equal_nan=True):
            w.violate("repeat_bit_identical", f"a plain call after a call with param_state differs from the plain call before it by {simrun.maxdiff(again, ref_out):.3e}", nidx)
            return res()
    last_kw = {}
    last_out = ref_out
    for ci, c in enumerate(program["calls"]):
        if w.violations:
            break
        kind = c["kind"]
        with_ps = bool(c.get("with_ps")) and shared_ps is not None
        ref_out = refs[with_ps]
        base["param_state"] = shared_ps if with_ps else None
        try:
            if kind == "knob":
                ck = c["ckpt"] if c["ckpt"] is not None and math.prod(c["ckpt"]) >= steps else None
                kw = {"mode": c["mode"], "ckpt": ck, "param_state": base["param_state"]}
                out = call(**kw)
                if ck is not None and math.prod(ck) > steps:
                    w.bump("probe_ckpt_prod_gt_steps")
                w.bump("fault_knob_" + c["mode"] + ("_ckpt%d" % len(ck) if ck else ""))
                w.bump("oracle_mode_equal")
                if out.shape != ref_out.shape or not simrun.close(out[mask], ref_out[mask]):
                    w.violate("mode_equal", f"mode={c['mode']}, checkpoint_lengths={ck}: differs from the plain eager call by {simrun.maxdiff(out[mask], ref_out[mask]):.3e}", nidx,
                              {"mode": c["mode"], "ckpt": ck})
                last_kw, last_out = kw, out
            elif kind == "repeat":
                base["param_state"] = last_kw.get("param_state")
                out = call(**last_kw)
                w.bump("oracle_repeat")
                if not np.array_equal(out, last_out, equal_nan=True):
                    w.violate("repeat_bit_identical", f"repeating an identical invocation ({last_kw}) differs by {simrun.maxdiff(out, last_out):.3e}", nidx)
            elif kind == "abort":
                before = snap.snapshot(m)
                fired = []
                try:
                    with faults.abort_at(c["point"], fired):
                        simrun.integrate(m, **dict(base, params=params))
                except faults.SimAbort:
                    pass
                except Exception as e:  # noqa: BLE001
                    if exc_in_harness(e):
                        raise
                if fired:
                    w.bump("fault_abort_" + c["point"])
                    after = snap.snapshot(m)
                    if after != before:
                        w.violate("module_unchanged", f"integrate aborted at {c['point']} left the module changed: " + "; ".join(snap.diff(before, after)[:4]), nidx)
                    out = call()
                    if not np.array_equal(out, ref_out, equal_nan=True):
                        w.violate("repeat_bit_identical", f"plain call after an invocation aborted at {c['point']} differs by {simrun.maxdiff(out, ref_out):.3e}", nidx)
            elif kind == "reject":
                rej = None
                if c["why"] == "ckpt_too_small" and steps > 1:
                    rej = {"ckpt": [steps - 1]}
                elif c["why"] == "no_tmax" and not ref.externals:
                    rej = {"steps": None}
                elif c["why"] == "clamp_short" and any(k != "i" for k in ref.externals):
                    rej = {"steps": program["N"] + 3}
                if rej is not None:
                    try:
                        call(**rej)
                        w.bump("reject_not_raised")
                    except Exception as e:  # noqa: BLE001
                        if exc_in_harness(e):
                            raise
                        w.bump("fault_reject")
            elif kind == "other_scheme":
                other = "crank_nicolson" if base["solver"] == "bwd_euler" else "bwd_euler"
                try:
                    out = call(solver=other, mode=c["mode"])
                except Exception as e:  # noqa: BLE001
                    if exc_in_harness(e) or not is_backend_refusal(e):
                        raise
                    w.bump("probe_backend_refusal")  # this backend does not offer the other scheme for this model
                    w.chain.add("call", {"c": c, "refused": True})
                    continue
                try:
                    fresh = faults.persist(m, "deepcopy")
                except faults.PersistFailed as e_:
                    raise HarnessError(str(e_)) from e_
                want = simrun.integrate(fresh, **dict(base, params=fresh.get_parameters() if params is not None else None, solver=other))
                w.bump("oracle_other_scheme")
                w.bump("fault_knob_other_scheme")
                if out.shape != want.shape or not simrun.close(out[mask], want[mask]):
                    w.violate("mode_equal", f"solver={other} on a module that was simulated with solver={base['solver']} before differs from a fresh deep copy "
                              f"of the module by {simrun.maxdiff(out[mask], want[mask]):.3e}", nidx, {"mode": "other_scheme"})
                again = call()
                if not np.array_equal(again, ref_out, equal_nan=True):
                    w.violate("repeat_bit_identical", f"the plain call after a call with solver={other} differs from the plain call before it by "
                              f"{simrun.maxdiff(again, ref_out):.3e}", nidx)
            elif kind == "vmap":
                if base["vsolver"] == "jax.sparse":
                    # JAX has no batching rule for its sparse solve: vmap over jax.sparse is a backend refusal
                    # (tolerated by the statement), not a different result.  The batch is compared with its own
                    # sequential loop, so it may run on jaxley.stone instead, if that backend accepts the model.
                    try:
                        do_vmap(w, m, c, dict(base, vsolver="jaxley.stone"), params, ref_out, mask, steps, nidx, call)
                    except Exception as e:  # noqa: BLE001
                        if exc_in_harness(e) or not is_backend_refusal(e):
                            raise
                        w.bump("probe_vmap_skipped_jax_sparse_only")
                else:
                    do_vmap(w, m, c, base, params, ref_out, mask, steps, nidx, call)
        except HarnessError:
            raise
        except Exception as e:  # noqa: BLE001
            if exc_in_harness(e):
                raise HarnessError(f"call {ci} {c}: {type(e).__name__}: {e}") from e
            w.violate("mode_equal", f"invocation {c} raised {exc_text(e)} while the plain eager call succeeded", nidx, {"kind": kind})
        w.chain.add("call", {"c": c, "n_viol": len(w.violations)})
    w.chain.add("ref", {"out": snap.arrays_digest(ref_out)})
    return res()


def do_vmap(w, m, c, base, params, ref_out, mask, steps, nidx, call):
    ref = w.ref
    B = c["batch"]
    ck = c["ckpt"] if c["ckpt"] is not None and math.prod(c["ckpt"]) >= steps else None
    kw = dict(delta_t=base["dt"], solver=base["solver"], voltage_solver=base["vsolver"], checkpoint_lengths=ck)
    if base["steps"] is not None:
        kw["t_max"] = simrun.tmax_for(base["steps"], base["dt"])
    factors = jnp.asarray([1.0 + 0.03 * (b + 1) * (1 if b % 2 == 0 else -1) for b in range(B)])
    over = c["over"]
    if over == "params" and not params:
        over = "data_set"
    t = c["target"] % ref.n
    p0 = params if params is not None else []
    shared = base.get("param_state")
    if shared is not None and over != "data_set":
        kw["param_state"] = shared
    if over == "params":
        batched = [{k: jnp.stack([v * f for f in factors]) for k, v in d.items()} for d in p0]
        f = lambda p: jx.integrate(m, p, **kw)  # noqa: E731
        arg = batched
        seq = [[{k: v * fac for k, v in d.items()} for d in p0] for fac in factors]
    elif over == "data_set":
        key = c["key"]
        val0 = float(m.nodes.loc[t, key])
        view = m.select(nodes=[t])
        f = lambda x: jx.integrate(m, p0, param_state=view.data_set(key, x, list(shared) if shared is not None else None), **kw)  # noqa: E731
        arg = val0 * factors
        seq = [val0 * fac for fac in factors]
    else:
        L = steps if not ref.externals else len(next(iter(ref.externals.values()))[0][1])
        wave = jnp.asarray([uval(c["seed"], "vstim", j, -0.05, 0.1) for j in range(L)])
        # one trace for one compartment, or (every other seed) one 1-D trace shared by two compartments of a view
        t2 = (t + 1 + (c["seed"] >> 3) % max(ref.n - 1, 1)) % ref.n
        view = m.select(nodes=sorted({t, t2}) if c["seed"] % 2 else [t])
        f = lambda a: jx.integrate(m, p0, data_stimuli=view.data_stimulate(a * wave, None), **kw)  # noqa: E731
        arg = factors
        seq = [fac for fac in factors]
    before = snap.snapshot(m)
    with quiet():
        g = jax.vmap(f)
        if c.get("jit"):
            g = jax.jit(g)
        out = np.asarray(g(arg))
        loop = np.asarray([np.asarray(f(s)) for s in seq])
    after = snap.snapshot(m)
    w.bump("integrate_calls", B + 1)
    w.sim_ms += steps * base["dt"] * (B + 1)
    if after != before:
        w.violate("module_unchanged", "vmapped integrate changed the module: " + "; ".join(snap.diff(before, after)[:4]), nidx)
    w.bump("fault_knob_vmap_" + over)
    w.bump("oracle_vmap")
    if out.shape != loop.shape or not simrun.close(out[:, mask], loop[:, mask]):
        w.violate("mode_equal", f"vmap over {over} (batch {B}, jit={c.get('jit')}, checkpoint_lengths={ck}) differs from the sequential loop by {simrun.maxdiff(out[:, mask], loop[:, mask]):.3e}", nidx,
                  {"mode": "vmap", "over": over})


def simplify(program):
    for field, simple in (("solver", "bwd_euler"), ("dt", 0.025), ("use_params", False), ("vsolver", "jax.sparse"), ("use_param_state", 0)):
        if program.get(field) != simple:
            q = copy.deepcopy(program)
            q[field] = simple
            yield q
    for i, c in enumerate(program["calls"]):
        for field, simple in (("ckpt", None), ("jit", False), ("mode", "eager"), ("batch", 1)):
            if field in c and c[field] != simple:
                q = copy.deepcopy(program)
                q["calls"][i][field] = simple
                yield q
    for i, op in enumerate(program["ops"]):
        if op.get("view"):
            for j in range(len(op["view"])):
                q = copy.deepcopy(program)
                del q["ops"][i]["view"][j]
                yield q
