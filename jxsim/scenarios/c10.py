"""C10 — all ways of setting a parameter are equivalent and touch only what was selected.

Workload: a set-up history, then a sequence of 1-4 make_trainable calls on random views (comp / branch / cell / group /
channel-name / select / synapse-type / edge), keys from node parameters, channel parameters (channel present in only
part of the view), initial states (v, gates) and synapse parameters; groups of unequal size; then new values.
Executions of the same assignment: (A) `params=` trainables, (B) a deep copy with `set` per group,
(C) a `data_set` chain -> `param_state`, (D) write_trainables + delete_trainables + plain integrate.
Faults: reorder of the make_trainable calls (values follow their call), persist between calls, reject, knob.
Oracles: param_paths_equal (recordings of A, B, C, D agree), untouched_rows / trainable_groups (parameter and
initial-state arrays used by the simulation equal the reference model row by row: every selected row gets its value,
every other row keeps the table value), write_trainables_roundtrip."""
import copy

from .. import env

env.setup()
import jax.numpy as jnp  # noqa: E402
import numpy as np  # noqa: E402
from jaxley.utils.cell_utils import params_to_pstate  # noqa: E402

from .. import faults, mech, simrun, snap  # noqa: E402
from ..driver import HarnessError, World, conform, exc_in_harness, exc_text, is_backend_refusal, quiet  # noqa: E402
from ..ops import apply_op  # noqa: E402
from ..program import DTS, DryWorld, abstract_state, gen_op, init_value_ops  # noqa: E402
from ..refmodule import isnan  # noqa: E402
from ..runops import TOL_SAME, effective_ref, nan_rows  # noqa: E402
from ..seedtree import stream, uval  # noqa: E402
from ..shapes import gen_any_shape  # noqa: E402

PROPERTY = "C10"
LEVEL = "exploration"
RUNS = {"quick": 96, "thorough": 3000}
WALL = {"quick": 1500, "thorough": 6 * 3600}
LIST_FIELDS = ["ops", "trains"]
STUBS = ["pickle buffer / deepcopy (persist fault)"]
ASSUMPTIONS = ["sharing rule of DESIGN.md 3.3 (comp/branch/cell views: one parameter per comp/branch/cell in view; group, channel, synapse-type and "
               "whole-module views: one shared parameter; select / edge: one per row); later trainables override earlier ones on shared rows",
               "tolerance 1e-9 between executions of the same numerics; arrays compared bit for bit with the values passed in"]


def generate(seed, tier="quick"):
    r = stream(seed, "shape")
    shape = gen_any_shape(r, max_cells=3, max_branches=4, max_ncomp=4)
    o = stream(seed, "ops")
    L = o.randint(3, 12)
    cfg = {"L": L, "channels": o.sample(mech.CHANNELS, o.randint(1, 4)), "synapses": o.sample(mech.SYNAPSES, o.randint(1, 3)), "max_edges": 6}
    dw = DryWorld(shape)
    ops = []
    for op in init_value_ops(o, dw.ref):
        dw.dry_apply(op)
        ops.append(op)
    sw = {"set": 2, "insert": 4, "connect": 3, "record": 4, "group": 3, "stimulate": 2}
    for _ in range(o.randint(4, 14)):
        op = gen_op(o, dw, sw, cfg)
        if op is not None and dw.dry_apply(op) == "accept":
            ops.append(op)
    if shape["kind"] == "network" and o.random() < 0.6:
        # wiring burst: several synapses of 2-3 interleaved types (rank within type != global edge index)
        types_ = [(c_, None if o.random() < 0.6 else c_[:3].lower() + "_syn") for c_ in o.sample(mech.SYNAPSES, o.randint(2, 3))]  # some names carry an underscore
        for _ in range(o.randint(3, 6)):
            c_, n_ = o.choice(types_)
            op = {"op": "connect", "pre": o.randrange(1 << 16), "post": o.randrange(1 << 16), "cls": c_, "name": n_}
            if dw.dry_apply(op) == "accept":
                ops.append(op)
    if not dw.ref.recordings:
        op = {"op": "record", "view": [], "state": "v"}
        dw.dry_apply(op)
        ops.append(op)
    trains = []
    tw = {"make_trainable": 1}
    tries = 0
    while len(trains) < o.randint(1, 4) and tries < 12:
        tries += 1
        op = gen_op(o, dw, tw, cfg)
        if op is None:
            continue
        res = dw.dry_apply(op)
        if res == "unspec":
            continue
        op["vseed"] = o.randrange(1 << 30)
        trains.append(op)
    order = list(range(len(trains)))
    o.shuffle(order)
    return {"prop": PROPERTY, "shape": shape, "ops": ops, "trains": trains, "order": order,
            "steps": None if dw.ref.externals and o.random() < 0.5 else o.randint(3, 14), "dt": o.choice(DTS),
            "solver": o.choice(["bwd_euler", "bwd_euler", "crank_nicolson"]), "vsolver": o.choice(["jaxley.stone", "jaxley.thomas", "jax.sparse"]),
            "mode": o.choice(["eager", "eager", "jit"]), "persist_after": o.choice([None, None, 0, 1]), "persist_how": o.choice(["pickle", "deepcopy"]),
            "edits_before_write": o.choice([0, 1, 2]), "edit_seed": o.randrange(1 << 30)}


def build(program, order, persist=True):
    w = World(program["shape"])
    w.sim_ms = 0.0
    i = -1
    for i, op in enumerate(program["ops"]):
        if w.stopped or w.violations:
            return w, []
        apply_op(w, op, i)
    accepted = []
    for pos, k in enumerate(order):
        if k >= len(program["trains"]):
            continue
        if w.stopped or w.violations:
            return w, accepted
        i += 1
        before = len(w.violations)
        out = apply_op(w, program["trains"][k], i)
        for v in w.violations[before:]:
            if v["oracle"] in ("tables_conform", "structural_invariant"):
                v["oracle"] = "trainable_groups"
        if out.get("outcome") == "accepted":
            accepted.append(k)
        if persist and program.get("persist_after") is not None and pos == program["persist_after"]:
            try:
                m2 = faults.persist(w.m, program["persist_how"])
            except faults.PersistFailed as e_:
                w.violate("copy_equal", str(e_), i)
                return w, accepted
            a, b = snap.snapshot(w.m), snap.snapshot(m2)
            if a != b:
                w.violate("copy_equal", "copy between make_trainable calls differs: " + "; ".join(snap.diff(a, b)[:3]), i)
            w.m = m2
            w.bump("fault_persist_" + program["persist_how"])
    return w, accepted


def new_values(w, program, accepted):
    """Per accepted trainable (in registration order): list of new values, one per group."""
    vals = []
    for t, k in zip(w.ref.trainables, accepted):
        op = program["trains"][k]
        default, is_state = w.key_default(t["key"])
        lo, hi = mech.value_range(t["key"], default, is_state)
        vals.append([uval(op["vseed"], t["key"] + "new", g, lo, hi) for g in range(len(t["groups"]))])
    return vals


def integ(w, m, program, **extra):
    kw = dict(steps=program["steps"], dt=program["dt"], solver=program["solver"], vsolver=program["vsolver"], mode=program["mode"])
    kw.update(extra)
    try:
        out = simrun.integrate(m, **kw)
    except Exception as e:  # noqa: BLE001
        if exc_in_harness(e):
            raise HarnessError(f"{type(e).__name__}: {e}") from e
        if is_backend_refusal(e) and kw["vsolver"] != "jax.sparse":
            w.bump("probe_backend_refusal")
            program["vsolver"] = "jax.sparse"
            kw["vsolver"] = "jax.sparse"
            out = simrun.integrate(m, **kw)
        else:
            raise
    w.bump("integrate_calls")
    return out


def execute(program):
    program = copy.deepcopy(program)
    nt = len(program["trains"])
    canonical = list(range(nt))
    w, accepted = build(program, canonical)
    nidx = len(program["ops"]) + nt
    states = [snap.digest(abstract_state(w.ref))[:12]]

    def res():
        faults_ = sum(v for k, v in w.stats.items() if k.startswith("fault_"))
        return {"violations": w.violations, "stats": w.stats, "digest": w.chain.h, "events": len(w.chain.events), "sim_time_ms": w.sim_ms,
                "integrate_calls": w.stats.get("integrate_calls", 0), "abstract_states": states,
                "transitions": sorted(set(f"{states[0]}:{t['key']}" for t in program["trains"])),
                "nontrivial": w.stats.get("oracle_paths", 0) > 0 and faults_ > 0, "stopped": w.stopped}

    if w.stopped or w.violations or not w.ref.trainables or not w.ref.recordings:
        return res()
    ref, m = w.ref, w.m
    if ref.externals:
        L = len(next(iter(ref.externals.values()))[0][1])
        steps = program["steps"] if program["steps"] is not None else L
    else:
        if program["steps"] is None:
            program["steps"] = 5
        steps = program["steps"]
    for t in ref.trainables:
        if len(set(len(g) for g in t["groups"])) > 1:
            w.bump("probe_unequal_group_sizes")
            nrows = ref.n if t["key"] in ref.cols else len(ref.edges)
            if all((nrows - 1) not in g for g in t["groups"]):
                w.bump("probe_padded_group_excludes_last_row")
    vals = new_values(w, program, accepted)
    params = [{t["key"]: jnp.asarray(v)} for t, v in zip(ref.trainables, vals)]
    w.bump("fault_knob_%s_%s_%s" % (program["mode"], program["solver"], program["vsolver"]))
    mask = np.ones(len(ref.recordings), dtype=bool)
    mask[nan_rows(ref)] = False
    # ---- (A) params
    try:
        outA = integ(w, m, program, params=params)
    except HarnessError:
        raise
    except Exception as e:  # noqa: BLE001
        w.violate("unexpected_refusal", f"integrate(params=...) raised {exc_text(e)}", nidx)
        return res()
    w.sim_ms += steps * program["dt"]
    # ---- (i) arrays used by the simulation vs the reference model
    eff = ref.clone()
    eff.write_trainables(vals)
    with quiet():
        m.to_jax()
        pstate = params_to_pstate(params, m.indices_set_by_trainables)
        allp = m.get_all_parameters(pstate, voltage_solver=program["vsolver"])
        alls = m.get_all_states(pstate, allp, program["dt"])
    w.bump("oracle_arrays")
    touched = {}
    for t in ref.trainables:
        touched.setdefault(t["key"], set()).update(r_ for g in t["groups"] for r_ in g)
    for key in sorted(touched):
        if key in eff.cols:
            want = eff.cols[key]
            got = np.asarray(allp[key] if key in allp else alls[key], dtype=float)
            for row in range(ref.n):
                if isnan(want[row]):
                    continue
                if got[row] != want[row]:
                    kind = "selected" if row in touched[key] else "not selected"
                    w.violate("untouched_rows" if row not in touched[key] else "trainable_groups",
                              f"{key}: the simulation uses {got[row]!r} in row {row} ({kind} by any trainable), expected {want[row]!r}", nidx,
                              {"row_selected": row in touched[key]})
                    return res()
        else:
            owner = [s_ for s_ in ref.syns if key in s_["params"] or key in s_["states"]][0]["name"]
            ids = [e for e, ed in enumerate(ref.edges) if ed["type"] == owner]
            got = np.asarray(allp[key] if key in allp else alls[key], dtype=float)
            for rank, e in enumerate(ids):
                want = eff.edges[e]["vals"][key]
                if got[rank] != want:
                    kind = "selected" if e in touched[key] else "not selected"
                    w.violate("untouched_rows" if e not in touched[key] else "trainable_groups",
                              f"{key}: the simulation uses {got[rank]!r} for synapse {e} ({kind}), expected {want!r}", nidx, {"row_selected": e in touched[key]})
                    return res()
    # every other parameter column must equal the tables
    for key, col in ref.cols.items():
        if key in touched or key not in allp:
            continue
        got = np.asarray(allp[key], dtype=float)
        for row in range(ref.n):
            if not isnan(col[row]) and got[row] != col[row]:
                w.violate("untouched_rows", f"{key} is not trainable but the simulation uses {got[row]!r} in row {row}, the table shows {col[row]!r}", nidx)
                return res()
    # ---- (B) deep copy with set per group
    try:
        base = faults.persist(m, "deepcopy")
        with quiet():
            base.delete_trainables()
        mB = faults.persist(base, "deepcopy")
    except faults.PersistFailed as e_:
        w.violate("copy_equal", str(e_), nidx)
        return res()
    ps = None
    with quiet():
        for t, v in zip(ref.trainables, vals):
            for g, x in zip(t["groups"], v):
                if t["key"] in ref.cols:
                    mB.select(nodes=list(g)).set(t["key"], float(x))
                    ps = base.select(nodes=list(g)).data_set(t["key"], float(x), ps)
                else:
                    mB.select(edges=list(g)).set(t["key"], float(x))
                    ps = base.select(edges=list(g)).data_set(t["key"], float(x), ps)
    d = conform(effective_ref(eff, False), mB)
    if d:
        w.violate("param_paths_equal", "set() per group does not give the tables the model predicts: " + "; ".join(d[:3]), nidx)
        return res()
    try:
        outB = integ(w, mB, program)
        outC = integ(w, base, program, param_state=ps)
    except HarnessError:
        raise
    except Exception as e:  # noqa: BLE001
        w.violate("param_paths_equal", f"set / data_set path raised {exc_text(e)} while params= simulated", nidx)
        return res()
    w.bump("oracle_paths")
    # the same param_state object fed to a second simulation must give the same result (data_set is functional)
    try:
        outC2 = integ(w, base, program, param_state=ps)
    except HarnessError:
        raise
    except Exception as e:  # noqa: BLE001
        w.violate("param_paths_equal", f"re-using a param_state raised {exc_text(e)}", nidx, {"paths": "data_set_reuse"})
        return res()
    if not np.array_equal(outC, outC2, equal_nan=True):
        w.violate("param_paths_equal", f"feeding the same param_state to a second integrate changes the result by {simrun.maxdiff(outC, outC2):.3e}", nidx, {"paths": "data_set_reuse"})
        return res()
    if not simrun.close(outA[mask], outB[mask], **TOL_SAME):
        w.violate("param_paths_equal", f"params= differs from set() by {simrun.maxdiff(outA[mask], outB[mask]):.3e}", nidx, {"paths": "params_vs_set"})
        return res()
    if not simrun.close(outB[mask], outC[mask], **TOL_SAME):
        w.violate("param_paths_equal", f"data_set differs from set() by {simrun.maxdiff(outB[mask], outC[mask]):.3e}", nidx, {"paths": "data_set_vs_set"})
        return res()
    # ---- (C') the same values as *arrays*: one data_set call per trainable on the union of its groups, one value per row
    #      ("If it is jnp.ndarray then it must be of shape (len(num_compartments))")
    ps_arr, n_arr = None, 0
    try:
        with quiet():
            for t, v in zip(ref.trainables, vals):
                per_row = {}
                for g, x in zip(t["groups"], v):
                    for r_ in g:
                        per_row[r_] = float(x)
                rows_ = sorted(per_row)
                if t["key"] in ref.cols:
                    if any(isnan(ref.cols[t["key"]][r_]) for r_ in rows_):
                        ps_arr = None
                        break
                    view_ = base.select(nodes=rows_)
                else:
                    view_ = base.select(edges=rows_)
                val_ = jnp.asarray([per_row[r_] for r_ in rows_]) if len(rows_) > 1 else per_row[rows_[0]]
                n_arr += len(rows_) > 1
                ps_arr = view_.data_set(t["key"], val_, ps_arr)
        if ps_arr is not None and n_arr:
            outC3 = integ(w, base, program, param_state=ps_arr)
            w.bump("oracle_data_set_arrays")
            if not simrun.close(outB[mask], outC3[mask], **TOL_SAME):
                w.violate("param_paths_equal", f"data_set with one array of per-row values differs from set() by {simrun.maxdiff(outB[mask], outC3[mask]):.3e}", nidx,
                          {"paths": "data_set_array_vs_set"})
                return res()
    except HarnessError:
        raise
    except Exception as e:  # noqa: BLE001
        if exc_in_harness(e):
            raise HarnessError(f"{type(e).__name__}: {e}") from e
        w.violate("param_paths_equal", f"data_set with an array of per-row values raised {exc_text(e)} while set() with the same array simulated", nidx,
                  {"paths": "data_set_array_vs_set"})
        return res()
    w.chain.add("paths", {"out": snap.arrays_digest(outA), "vals": vals})
    # ---- data_set is functional: integrate must not modify the caller's param_state, and feeding the same object
    #      twice gives the same result.  Probed on a synapse parameter of an edge that is not the first of its type.
    if ref.edges:
        iw_ = [sum(1 for x in ref.edges[:e] if x["type"] == ed["type"]) for e, ed in enumerate(ref.edges)]  # index within type
        # prefer synapses for which translating the index twice lands elsewhere (interleaved types)
        cand = ([e for e in range(len(ref.edges)) if iw_[iw_[e]] != iw_[e]]
                or [e for e in range(len(ref.edges)) if iw_[e] != e] or list(range(len(ref.edges))))
        e_ = cand[program.get("edit_seed", 0) % len(cand)]
        syn_ = [s_ for s_ in ref.syns if s_["name"] == ref.edges[e_]["type"]][0]
        key_ = sorted(syn_["params"])[program.get("edit_seed", 0) % len(syn_["params"])]
        lo, hi = mech.value_range(key_, syn_["params"][key_], False)
        val_ = uval(program.get("edit_seed", 0), key_ + "reuse", 0, lo, hi)
        with quiet():
            ps2 = base.select(edges=[e_]).data_set(key_, val_, None)
        frozen = [(d["key"], np.asarray(d["indices"]).tolist(), np.asarray(d["val"]).tolist()) for d in ps2]
        try:
            o1 = integ(w, base, program, param_state=ps2)
            o2 = integ(w, base, program, param_state=ps2)
        except HarnessError:
            raise
        except Exception as e:  # noqa: BLE001
            w.violate("param_paths_equal", f"data_set of {key_} on synapse {e_} raised {exc_text(e)}", nidx, {"paths": "data_set_reuse"})
            return res()
        w.bump("oracle_param_state_reuse")
        now = [(d["key"], np.asarray(d["indices"]).tolist(), np.asarray(d["val"]).tolist()) for d in ps2]
        if now != frozen:
            w.violate("param_paths_equal", f"integrate modified the caller's param_state: {frozen} became {now}", nidx, {"paths": "data_set_reuse"})
            return res()
        if not np.array_equal(o1, o2, equal_nan=True):
            w.violate("param_paths_equal", f"feeding the same param_state ({key_} on synapse {e_}) to a second integrate changes the result by {simrun.maxdiff(o1, o2):.3e}", nidx, {"paths": "data_set_reuse"})
            return res()
        mS = faults.persist(base, "deepcopy")
        with quiet():
            mS.select(edges=[e_]).set(key_, val_)
        o3 = integ(w, mS, program)
        if not simrun.close(o1[mask], o3[mask], **TOL_SAME):
            w.violate("param_paths_equal", f"data_set of {key_} on synapse {e_} differs from set() by {simrun.maxdiff(o1[mask], o3[mask]):.3e}", nidx, {"paths": "data_set_vs_set"})
            return res()

    # ---- reorder of the make_trainable calls
    order = [k for k in program["order"] if k < nt] + [k for k in canonical if k not in program["order"]]
    overlap = any(len([1 for t in ref.trainables if t["key"] == key and row in [r_ for g in t["groups"] for r_ in g]]) > 1
                  for key, rows in touched.items() for row in rows)
    if order != canonical and not overlap:
        w2, acc2 = build(program, order, persist=False)
        w.bump("fault_reorder")
        if w2.violations:
            w.violations.extend(w2.violations)
            return res()
        if not w2.stopped and sorted(acc2) == sorted(accepted):
            vals2 = new_values(w2, program, acc2)
            params2 = [{t["key"]: jnp.asarray(v)} for t, v in zip(w2.ref.trainables, vals2)]
            try:
                out2 = integ(w, w2.m, program, params=params2)
            except HarnessError:
                raise
            except Exception as e:  # noqa: BLE001
                w.violate("param_paths_equal", f"make_trainable order {order} raised {exc_text(e)}", nidx)
                return res()
            w.bump("oracle_reorder")
            if not simrun.close(outA[mask], out2[mask], **TOL_SAME):
                w.violate("param_paths_equal", f"order {order} of non-overlapping make_trainable calls changes the result by {simrun.maxdiff(outA[mask], out2[mask]):.3e}", nidx,
                          {"paths": "reorder"})
                return res()
    elif overlap:
        w.bump("probe_overlapping_trainables")
    # ---- (D) write_trainables round trip — after a further edit of the tables (history): rows and keys not covered by
    #      the trainables are edited *between* the last integrate and write_trainables; they must keep the edited value
    edits = []
    es = stream(program.get("edit_seed", 1), "edits")
    for j in range(program.get("edits_before_write", 0)):
        cand = sorted(set(list(touched)) | {"radius", "v"}) + [c for c in ref.edge_columns()]
        key = es.choice(cand)
        if key in ref.cols:
            view = [["select_nodes", {"t": "list", "v": [es.randrange(64) for _ in range(es.randint(1, 3))]}]]
        else:
            view = [["select_edges", {"t": "int", "v": es.randrange(64)}]]
        edits.append({"op": "set", "view": view, "key": key, "val": {"seed": es.randrange(1 << 30)}})
    for j, op in enumerate(edits):
        apply_op(w, op, nidx + j)
    if w.violations or w.stopped:
        return res()
    # values the trainables write are re-applied by the model on top of the edited tables
    try:
        with quiet():
            m.write_trainables(params)
    except Exception as e:  # noqa: BLE001
        if exc_in_harness(e):
            raise HarnessError(str(e)) from e
        w.violate("write_trainables_roundtrip", f"write_trainables raised {exc_text(e)}", nidx)
        return res()
    ref.write_trainables(vals)
    d = conform(ref, m)
    w.bump("oracle_write")
    if d:
        w.violate("write_trainables_roundtrip", "after write_trainables the tables do not show the simulated values: " + "; ".join(d[:3]), nidx)
        return res()
    with quiet():
        m.delete_trainables()
    ref.trainables = []
    try:
        outD = integ(w, m, program)
    except HarnessError:
        raise
    except Exception as e:  # noqa: BLE001
        w.violate("write_trainables_roundtrip", f"integrate after write_trainables raised {exc_text(e)}", nidx)
        return res()
    if not edits and not simrun.close(outA[mask], outD[mask], **TOL_SAME):
        w.violate("write_trainables_roundtrip", f"plain integrate after write_trainables differs from params= by {simrun.maxdiff(outA[mask], outD[mask]):.3e}", nidx)
    return res()


def simplify(program):
    for field, simple in (("solver", "bwd_euler"), ("dt", 0.025), ("mode", "eager"), ("vsolver", "jax.sparse"), ("persist_after", None), ("edits_before_write", 0)):
        if program.get(field) != simple:
            q = copy.deepcopy(program)
            q[field] = simple
            yield q
    if program["order"] != sorted(program["order"]):
        q = copy.deepcopy(program)
        q["order"] = sorted(program["order"])
        yield q
    for fld in ("ops", "trains"):
        for i, op in enumerate(program[fld]):
            if op.get("view"):
                for j in range(len(op["view"])):
                    q = copy.deepcopy(program)
                    del q[fld][i]["view"][j]
                    yield q
            if op.get("init"):
                q = copy.deepcopy(program)
                q[fld][i]["init"] = None
                yield q
