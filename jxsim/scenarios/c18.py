"""C18 — modules survive pickling and deep copies unchanged and independent.

Workload: lifecycle histories (C19 alphabet) over all module kinds including SWC cells with radius functions,
networks with synapses, trainables, groups, clamps.
Fault kind `persist` at 1-3 random points of the history: pickle or deepcopy; the session continues on the copy
(original dropped = restart with only durable state), on the original (the copy is kept aside), or on *both with
different continuations*.
Oracles: copy_equal (immediately after the round trip all public tables, groups, trainables, recordings, inputs are
bit-identical, integrate is bit-identical, and on a quarter of the runs jax.grad of a quadratic loss w.r.t. all
trainables agrees), faulted_equals_faultfree (same program with and without the faults ends in the same tables and
recordings), copy_independent (after diverging continuations each side equals a fault-free execution of its own
program; a copy kept aside is unchanged by edits of the original)."""
import copy

from .. import env

env.setup()
import jax  # noqa: E402
import jax.numpy as jnp  # noqa: E402
import numpy as np  # noqa: E402
import jaxley as jx  # noqa: E402

from .. import faults, mech, simrun, snap  # noqa: E402
from ..driver import HarnessError, World, conform, exc_in_harness, exc_text, is_backend_refusal, quiet  # noqa: E402
from ..ops import apply_op  # noqa: E402
from ..program import DTS, DryWorld, abstract_state, gen_op, init_value_ops, swarm  # noqa: E402
from ..runops import TOL_SAME, expected_steps, nan_rows  # noqa: E402
from ..seedtree import stream  # noqa: E402
from ..shapes import gen_any_shape  # noqa: E402
from .c13 import gen_swc  # noqa: E402

PROPERTY = "C18"
LEVEL = "exploration"
RUNS = {"quick": 96, "thorough": 3000}
WALL = {"quick": 1500, "thorough": 6 * 3600}
LIST_FIELDS = ["ops", "persists"]
STUBS = ["pickle bytes buffer / deepcopy owned by the simulator (the library has no persistence layer of its own; the FAQ prescribes pickle)",
         "in-memory SWC text (io.StringIO)"]
ASSUMPTIONS = ["gradients are compared only between a module and its copy (gradient correctness itself is C05, not applicable here)",
               "bit equality between a module and its copy for tables and integrate; 1e-9 for gradients and for faulted vs fault-free executions"]


def gen_tail(o, dw, weights, cfg, n):
    ops = []
    for _ in range(n):
        op = gen_op(o, dw, weights, cfg)
        if op is None:
            continue
        if dw.dry_apply(op) == "unspec":
            continue
        ops.append(op)
    return ops


def generate(seed, tier="quick"):
    r = stream(seed, "shape")
    if r.random() < 0.2:
        shape = {"kind": "swc", "swc_text": gen_swc(r), "ncomp": r.randint(1, 3)}
    else:
        shape = gen_any_shape(r)
        if shape["kind"] == "network" and r.random() < 0.3:
            # networks of unbranched cables and point neurons (no branch point anywhere, the last cells without any
            # compartment-to-compartment edge): what a copy has to rebuild or carry over is least redundant here
            for c_ in shape["cells"]:
                c_["parents"], c_["ncomp"] = [-1], [c_["ncomp"][0]]
                c_.pop("pre", None)
            for c_ in shape["cells"][-r.randint(1, 2):]:
                c_["ncomp"] = [1]
    o = stream(seed, "ops")
    cfg = {"L": o.randint(4, 12), "channels": o.sample(mech.CHANNELS, o.randint(2, 5)), "synapses": o.sample(mech.SYNAPSES, o.randint(1, 3)), "p_syn_clamp": 0.25}
    weights = swarm(o)
    weights.pop("delete_trainables", None)
    dw = DryWorld(shape)
    ops = []
    for op in init_value_ops(o, dw.ref):
        if shape["kind"] == "swc" and op["key"] in ("radius", "length"):
            continue
        dw.dry_apply(op)
        ops.append(op)
    nops = o.randint(5, 20)
    npers = o.randint(1, 3)
    points = sorted(o.sample(range(len(ops), len(ops) + nops + 1), min(npers, nops + 1)))
    persists = []
    snapshots = {}
    main = gen_tail(o, dw, weights, cfg, 0)
    for k in range(nops + 1):
        pos = len(ops)
        if k + len(init_value_ops.__name__) * 0 + 0 >= 0 and (len(persists) < len(points)) and (len(ops) >= points[len(persists)] or k == nops):
            cont = o.choice(["copy", "copy", "orig", "both"])
            p = {"at": pos, "how": o.choice(["pickle", "deepcopy"]), "cont": cont, "run_before": o.choice([None, None, "eager", "jit", "jit"])}
            if cont == "both":
                dw2 = DryWorld.__new__(DryWorld)
                dw2.__dict__.update({"shape": shape, "m": None, "ref": dw.ref.clone(), "violations": [], "stats": {}, "stopped": None, "op_index": None, "handles": {}, "epoch": 0, "io_epoch": 0})
                p["tail"] = gen_tail(stream(seed, f"tail{pos}"), dw2, swarm(stream(seed, f"tailw{pos}")), cfg, o.randint(2, 6))
            persists.append(p)
        if k < nops:
            ops += gen_tail(o, dw, weights, cfg, 1)
    if not dw.ref.recordings:
        op = {"op": "record", "view": [["select_nodes", {"t": "int", "v": o.randrange(64)}]], "state": "v"}
        dw.dry_apply(op)
        ops.append(op)
    has_clamp = any(k_ != "i" for k_ in dw.ref.externals)
    steps = None if dw.ref.externals and o.random() < 0.5 else (o.randint(2, cfg["L"]) if has_clamp else o.randint(2, 14))
    return {"prop": PROPERTY, "shape": shape, "ops": ops, "persists": persists, "steps": steps, "dt": o.choice(DTS),
            "solver": o.choice(["bwd_euler", "bwd_euler", "crank_nicolson"]), "vsolver": o.choice(["jaxley.stone", "jaxley.thomas", "jax.sparse"]),
            "grad": o.random() < 0.25, "raw_group": o.choice([0, o.randrange(1, 1 << 16)])}


def integ(w, m, program, params=None, steps="default"):
    kw = dict(steps=program["steps"] if steps == "default" else steps, dt=program["dt"], solver=program["solver"], vsolver=program["vsolver"], params=params)
    try:
        out = simrun.integrate(m, **kw)
    except Exception as e:  # noqa: BLE001
        if exc_in_harness(e):
            raise HarnessError(f"{type(e).__name__}: {e}") from e
        if is_backend_refusal(e) and kw["vsolver"] != "jax.sparse":
            w.bump("probe_backend_refusal")
            program["vsolver"] = "jax.sparse"
            kw["vsolver"] = "jax.sparse"
            out = simrun.integrate(m, **kw)
        else:
            raise
    w.bump("integrate_calls")
    return out


def runnable(ref, program):
    steps, why = expected_steps(ref, {"steps": program["steps"]})
    if why is None:
        return program["steps"], steps
    if why == "no t_max and no inputs":
        return 4, 4
    if why == "clamp shorter than t_max":
        L = min(len(lst[0][1]) for k, lst in ref.externals.items() if k != "i" and lst)
        return L, L
    return None, None


def compare_copies(w, a, b, program, how, i, with_grad):
    """copy_equal right after the round trip."""
    sa, sb = snap.snapshot(a), snap.snapshot(b)
    w.bump("oracle_copy_tables")
    if sa != sb:
        w.violate("copy_equal", f"{how} copy differs in its tables: " + "; ".join(snap.diff(sa, sb)[:4]), i, {"how": how})
        return False
    for g_ in a.groups:
        ga, gb = np.asarray(a.groups[g_]).tolist(), np.asarray(b.groups.get(g_, [])).tolist()
        if ga != gb:  # same members in another order: array-valued set / 2-D stimuli through the group view land elsewhere
            w.violate("copy_equal", f"{how} copy stores group {g_!r} as {gb}, the original as {ga}", i, {"how": how})
            return False
    if getattr(a, "_radius_generating_fns", None) is not None and getattr(b, "_radius_generating_fns", None) is None:
        w.violate("copy_equal", f"{how} copy lost the SWC radius-generating functions", i, {"how": how})
        return False
    if not copy_of_views(w, a, sa, how, i):
        return False
    sarg, steps = runnable(w.ref, program)
    if steps is None:
        return True
    params = a.get_parameters() if w.ref.trainables else None
    try:
        oa = integ(w, a, program, params=params, steps=sarg)
    except HarnessError:
        raise
    except Exception:  # noqa: BLE001  (what the original does with this history is C19's business)
        return True
    try:
        ob = integ(w, b, program, params=b.get_parameters() if w.ref.trainables else None, steps=sarg)
    except HarnessError:
        raise
    except Exception as e:  # noqa: BLE001
        w.violate("copy_equal", f"integrate of the {how} copy raised {exc_text(e)} while the original simulated", i, {"how": how})
        return False
    w.bump("oracle_copy_integrate")
    w.sim_ms += 2 * steps * program["dt"]
    if not np.array_equal(oa, ob, equal_nan=True):
        w.violate("copy_equal", f"integrate of the {how} copy differs from the original by {simrun.maxdiff(oa, ob):.3e}", i, {"how": how})
        return False
    if with_grad and w.ref.trainables:
        mask = np.ones(len(w.ref.recordings), dtype=bool)
        mask[nan_rows(w.ref)] = False
        kw = dict(delta_t=program["dt"], solver=program["solver"], voltage_solver=program["vsolver"])
        if sarg is not None:
            kw["t_max"] = simrun.tmax_for(sarg, program["dt"])

        def grad_of(m):
            def loss(p):
                return jnp.sum(jx.integrate(m, p, **kw)[np.where(mask)[0]] ** 2) * 1e-3

            with quiet():
                return jax.grad(loss)(m.get_parameters())

        try:
            ga, gb = grad_of(a), grad_of(b)
        except Exception as e:  # noqa: BLE001
            if exc_in_harness(e):
                raise HarnessError(f"grad: {type(e).__name__}: {e}") from e
            w.bump("probe_grad_refused")
            return True
        w.bump("oracle_copy_grad")
        for da, db in zip(ga, gb):
            for k in da:
                if not simrun.close(np.asarray(da[k]), np.asarray(db[k]), rtol=1e-9, atol=1e-12):
                    w.violate("copy_grad_equal", f"gradient w.r.t. {k} of the {how} copy differs from the original by {simrun.maxdiff(np.asarray(da[k]), np.asarray(db[k])):.3e}", i, {"how": how})
                    return False
    return True


def copy_of_views(w, a, sa, how, i):
    """Views are modules too (`Module.copy()` returns a deep-copied view, the test-suite pickles them): a copied view
    shows the same tables as the view it was copied from — including the columns that exist only in a view and decide how
    `make_trainable` shares parameters and how `.edge()` resolves — and carries a base equal to, and distinct from, the original."""
    from ..refmodule import Reject, Unspec

    specs = [[["cell", "all"]]] if w.ref.kind == "network" else ([[["branch", "all"]]] if w.ref.kind == "cell" else [])
    if w.ref.kind in ("cell", "network") and w.ref.n > 1:
        specs.append([["select_nodes", {"t": "list", "v": [0, w.ref.n - 1]}]])
    if w.ref.edges:
        specs.append([["syn", w.ref.edges[-1]["type"]]])
    for spec in specs:
        try:
            rv, thunk, calls = w.resolve_view(spec, m=a)
        except (Reject, Unspec):
            continue
        try:
            with quiet():
                v = thunk()
        except Exception as e:  # noqa: BLE001  (a view that cannot be built is C11's business)
            if exc_in_harness(e):
                raise HarnessError(f"view {spec}: {e}") from e
            continue
        try:
            v2 = faults.persist(v, how)
        except faults.PersistFailed as e:
            w.violate("copy_equal", f"view {calls}: {e}", i, {"how": how, "view": True})
            return False
        w.bump("oracle_copy_view")
        for name in ("nodes", "edges"):
            fa, fb = getattr(v, name), getattr(v2, name)
            if list(fa.columns) != list(fb.columns) or not fa.equals(fb):
                cols = [c for c in fa.columns if c not in fb.columns or not fa[c].equals(fb[c])] + [c for c in fb.columns if c not in fa.columns]
                w.violate("copy_equal", f"{how} copy of the view {calls} shows different {name}: columns {cols[:6]}", i, {"how": how, "view": True})
                return False
        if v2.base is a or v2.base is v.base:
            w.violate("copy_independent", f"{how} copy of the view {calls} still refers to the original module", i, {"how": how, "view": True})
            return False
        sb2 = snap.snapshot(v2.base)
        if sb2 != sa:
            w.violate("copy_equal", f"the module inside the {how} copy of the view {calls} differs: " + "; ".join(snap.diff(sa, sb2)[:3]), i, {"how": how, "view": True})
            return False
        if spec[0][0] == "syn":
            try:
                with quiet():
                    ea, eb = v.edge(0).edges.index.tolist(), v2.edge(0).edges.index.tolist()
            except Exception as e:  # noqa: BLE001
                if exc_in_harness(e):
                    raise HarnessError(f"edge(0): {e}") from e
                w.violate("copy_equal", f".edge(0) on the view {calls} or on its {how} copy raised {exc_text(e)}", i, {"how": how, "view": True})
                return False
            if ea != eb:
                w.violate("copy_equal", f".edge(0) selects {eb} on the {how} copy of the view {calls}, {ea} on the view", i, {"how": how, "view": True})
                return False
    return True


def raw_group(w, program):
    """A group stored in non-ascending order (created from an unsorted select): its members are modelled as a set, its
    stored order is only ever compared between a module and its copy."""
    k = program.get("raw_group")
    if not k or w.ref.n < 2:
        return
    a_, b_ = sorted([k % w.ref.n, (k // 7) % w.ref.n])
    if a_ == b_:
        b_ = (a_ + 1) % w.ref.n
        a_, b_ = sorted([a_, b_])
    with quiet():
        w.m.select(nodes=[b_, a_]).add_to_group("zz_raw")
    w.ref.groups["zz_raw"] = [a_, b_]


def run_ops(w, ops, start=0):
    i = start
    for op in ops:
        if w.stopped or w.violations:
            break
        apply_op(w, op, i)
        i += 1
    return i


def fork(w, m):
    w2 = World.__new__(World)
    w2.__dict__.update({"shape": w.shape, "m": m, "ref": w.ref.clone(), "violations": [], "stats": {}, "chain": snap.Chain(), "stopped": None, "sim_ms": 0.0,
                        "handles": {}, "epoch": 0, "io_epoch": 0})
    return w2


def final_run(w, program):
    sarg, steps = runnable(w.ref, program)
    if steps is None:
        return None
    params = w.m.get_parameters() if w.ref.trainables else None
    try:
        return integ(w, w.m, program, params=params, steps=sarg)
    except HarnessError:
        raise
    except Exception:  # noqa: BLE001
        return None


def execute(program):
    program = copy.deepcopy(program)
    ops = program["ops"]
    # ---- fault-free execution
    F = World(program["shape"])
    F.sim_ms = 0.0
    raw_group(F, program)
    run_ops(F, ops)
    states = [snap.digest(abstract_state(F.ref))[:12]]
    w = World(program["shape"])
    w.sim_ms = 0.0
    raw_group(w, program)

    def res():
        faults_ = sum(v for k, v in w.stats.items() if k.startswith("fault_"))
        return {"violations": w.violations, "stats": w.stats, "digest": w.chain.h, "events": len(w.chain.events), "sim_time_ms": w.sim_ms,
                "integrate_calls": w.stats.get("integrate_calls", 0), "abstract_states": states,
                "transitions": sorted(set(f"{states[0]}:{p['how']}:{p['cont']}" for p in program["persists"])),
                "nontrivial": faults_ > 0 and w.stats.get("oracle_copy_tables", 0) > 0, "stopped": w.stopped}

    if F.violations:
        # the history itself misbehaves without any fault: C19's business, nothing to compare here
        w.stopped = "fault-free execution already violates C19 oracles"
        return res()
    out_F = final_run(F, program) if not F.stopped else None
    S_F = snap.snapshot(F.m)
    # ---- faulted execution
    persists = sorted(program["persists"], key=lambda p: p["at"])
    pos = 0
    aside = []   # (copy kept aside, snapshot at creation)
    forks = []   # (world continuing on a copy with its own tail, prefix length, tail)
    for p in persists:
        at = min(p["at"], len(ops))
        run_ops(w, ops[pos:at], pos)
        pos = at
        if w.stopped or w.violations:
            return res()
        if p.get("run_before"):
            # the module was just simulated (eagerly or under jax.jit) when it is pickled / copied
            sarg, st_ = runnable(w.ref, program)
            if st_ is not None:
                try:
                    simrun.integrate(w.m, steps=sarg, dt=program["dt"], solver=program["solver"], vsolver=program["vsolver"], mode=p["run_before"],
                                     params=w.m.get_parameters() if w.ref.trainables else None)
                    w.bump("fault_knob_run_before_persist_" + p["run_before"])
                except Exception as e:  # noqa: BLE001
                    if exc_in_harness(e):
                        raise HarnessError(str(e)) from e
        try:
            m2 = faults.persist(w.m, p["how"])
        except faults.PersistFailed as e:
            w.violate("copy_equal", str(e), at, {"how": p["how"]})
            return res()
        w.bump("fault_persist_" + p["how"])
        w.bump("fault_continue_on_" + p["cont"])
        if not compare_copies(w, w.m, m2, program, p["how"], at, program.get("grad")):
            return res()
        w.chain.add("persist", {"at": at, "how": p["how"], "cont": p["cont"], "tables": snap.digest(snap.snapshot(m2))})
        if p["cont"] == "copy":
            w.m = m2
        elif p["cont"] == "orig":
            aside.append((m2, snap.snapshot(m2), at))
        else:
            # the copy is edited *now* (a leak copy -> original then shows in the original's final tables), and compared
            # with its own fault-free execution only after the original has been edited further (leak original -> copy)
            fw = fork(w, m2)
            run_ops(fw, p.get("tail", []), at)
            forks.append((fw, at, p.get("tail", [])))
    run_ops(w, ops[pos:], pos)
    if w.stopped or w.violations:
        return res()
    # (ii) faulted equals fault-free
    S_X = snap.snapshot(w.m)
    w.bump("oracle_faulted_vs_faultfree")
    if not F.stopped and S_X != S_F:
        w.violate("faulted_equals_faultfree", "the same history with pickle/deepcopy restarts ends in different tables: " + "; ".join(snap.diff(S_F, S_X)[:4]), len(ops))
        return res()
    if out_F is not None:
        out_X = final_run(w, program)
        if out_X is None or out_X.shape != out_F.shape or not simrun.close(out_F, out_X, **TOL_SAME):
            w.violate("faulted_equals_faultfree", f"recordings after the restarts differ from the fault-free execution by "
                      f"{simrun.maxdiff(out_F, out_X) if out_X is not None else float('nan'):.3e}", len(ops))
            return res()
        w.sim_ms += 2 * (out_F.shape[1] - 1) * program["dt"]
    # (iii) independence
    for m2, s0, at in aside:
        w.bump("oracle_aside_unchanged")
        s1 = snap.snapshot(m2)
        if s1 != s0:
            w.violate("copy_independent", f"a copy taken at op {at} and kept aside changed while the original was edited: " + "; ".join(snap.diff(s0, s1)[:4]), at)
            return res()
    for fw, at, tail in forks:
        G = World(program["shape"])
        G.sim_ms = 0.0
        raw_group(G, program)
        run_ops(G, ops[:at] + tail)
        if G.violations or fw.violations:
            continue  # the continuation itself misbehaves fault-free: C19's business
        if G.stopped or fw.stopped:
            continue
        w.bump("oracle_fork_independent")
        sg, sf = snap.snapshot(G.m), snap.snapshot(fw.m)
        if sg != sf:
            w.violate("copy_independent", f"the copy taken at op {at}, continued with its own edits, differs from a fault-free execution of the same program: "
                      + "; ".join(snap.diff(sg, sf)[:4]), at)
            return res()
        og, of = final_run(G, program), final_run(fw, program)
        w.bump("integrate_calls", 2)
        if og is not None and (of is None or og.shape != of.shape or not simrun.close(og, of, **TOL_SAME)):
            w.violate("copy_independent", f"recordings of the continued copy differ from its fault-free execution by {simrun.maxdiff(og, of) if of is not None else float('nan'):.3e}", at)
            return res()
    return res()


def simplify(program):
    for field, simple in (("solver", "bwd_euler"), ("dt", 0.025), ("vsolver", "jax.sparse"), ("grad", False), ("raw_group", 0)):
        if program.get(field) != simple:
            q = copy.deepcopy(program)
            q[field] = simple
            yield q
    for i, p in enumerate(program["persists"]):
        if p.get("tail"):
            for j in range(len(p["tail"])):
                q = copy.deepcopy(program)
                del q["persists"][i]["tail"][j]
                yield q
        if p["cont"] != "copy":
            q = copy.deepcopy(program)
            q["persists"][i]["cont"] = "copy"
            q["persists"][i].pop("tail", None)
            yield q
        if p["at"] > 0:
            q = copy.deepcopy(program)
            q["persists"][i]["at"] = p["at"] - 1
            yield q
        if p.get("run_before"):
            q = copy.deepcopy(program)
            q["persists"][i]["run_before"] = None
            yield q
    for i, op in enumerate(program["ops"]):
        if op.get("view"):
            for j in range(len(op["view"])):
                q = copy.deepcopy(program)
                del q["ops"][i]["view"][j]
                yield q
