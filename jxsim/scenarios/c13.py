"""C13 — changing the number of compartments preserves the branch and its surroundings.

Workload: hand-built cells (uniform per branch, mutually different radii / lengths / r_a / c_m, channels with
per-branch parameters, groups holding whole branches) and SWC cells read from generated in-memory SWC text; a
*sequence of set_ncomp(n) calls* on different branches and repeatedly on the same branch (n in 1..5), producing
parents with fewer compartments than the maximum of their level.
Faults: reject (set_ncomp while recordings / stimuli / trainables exist, on a non-uniform branch, on all branches),
persist between calls (a pickled SWC cell must keep its radius functions), knob (every voltage-solver backend).
Oracles: setncomp_equals_direct (tables equal a module built directly with the final ncomp; SWC radii equal those of
read_swc(ncomp=n)), setncomp_surroundings (RefModule conformance: total length, other branches, comb_parents,
branch membership of groups), backends_agree (every backend that accepts the model agrees with the directly built
module / canonical twin, with the other backends and with RefSim)."""
import copy
import io

from .. import env

env.setup()
import jax.numpy as jnp  # noqa: E402
import numpy as np  # noqa: E402

from .. import faults, mech, refsim, simrun, snap, twin  # noqa: E402
from ..driver import HarnessError, World, conform, exc_in_harness, exc_text, feq, is_backend_refusal, quiet, ref_from_module, shape_of_swc  # noqa: E402
from ..ops import apply_op  # noqa: E402
from ..program import DTS, abstract_state  # noqa: E402
from ..runops import TOL_REF, TOL_SAME  # noqa: E402
from ..seedtree import stream  # noqa: E402
from ..shapes import gen_cell  # noqa: E402

PROPERTY = "C13"
LEVEL = "exploration"
RUNS = {"quick": 96, "thorough": 3000}
WALL = {"quick": 1500, "thorough": 6 * 3600}
LIST_FIELDS = ["prep", "calls"]
STUBS = ["in-memory SWC text (io.StringIO) as the simulator's disk", "pickle buffer / deepcopy (persist fault)",
         "borrowed channel kinetics inside RefSim"]
ASSUMPTIONS = ["set_ncomp's mean over identical values may move a value by 1 ulp: tables compared with 1e-12 relative tolerance",
               "RefSim scheme assumptions as in C19; a backend may refuse a model (exception from solver_voltage.py / solver_utils.py), it may not differ"]
BACKENDS = ["jaxley.stone", "jaxley.thomas", "jax.sparse"]


def gen_swc(r):
    """Well-formed SWC text: two-point soma, random tree of same-type sections in depth-first order."""
    lines = ["# generated"]
    pts = []  # (id, type, x, y, z, r, parent)

    def emit(tp, x, y, z, rad, parent):
        pid = len(pts) + 1
        pts.append((pid, tp, x, y, z, rad, parent))
        return pid

    rs = round(r.uniform(3.0, 8.0), 3)
    s1 = emit(1, 0.0, 0.0, 0.0, rs, -1)
    nsoma = r.choice([1, 2, 2, 3])  # single-point soma, two-point soma, three-point soma
    s2 = s1
    for k in range(1, nsoma):
        s2 = emit(1, round(k * r.uniform(5, 15), 3), 0.0, 0.0, rs, s2)
    budget = [r.randint(2, 6)]

    def grow(parent, tp, x, y, z, depth):
        if budget[0] <= 0:
            return
        budget[0] -= 1
        last = parent
        rad = round(r.uniform(0.3, 2.0), 3)
        for _ in range(r.randint(2, 4)):
            x += round(r.uniform(4, 20), 3)
            y += round(r.uniform(-8, 8), 3)
            z += round(r.uniform(-3, 3), 3)
            rad = round(max(0.15, rad * r.uniform(0.7, 1.1)), 3)
            last = emit(tp, round(x, 3), round(y, 3), round(z, 3), rad, last)
        if depth < 3:
            for _ in range(r.choice([0, 0, 2, 2, 3])):
                grow(last, tp, x, y, z, depth + 1)

    for _ in range(r.randint(1, 3)):
        grow(s2, r.choice([2, 3, 4]), pts[s2 - 1][2], 0.0, 0.0, 0)
    for p in pts:
        lines.append(" ".join(str(v) for v in p))
    return "\n".join(lines) + "\n"


def generate(seed, tier="quick"):
    r = stream(seed, "shape")
    o = stream(seed, "ops")
    if r.random() < 0.35:
        shape = {"kind": "swc", "swc_text": gen_swc(r), "ncomp": r.randint(1, 3)}
        nb_hint = 8
    else:
        c = gen_cell(r, max_branches=6, max_ncomp=4)
        while len(c["ncomp"]) < 2:
            c = gen_cell(r, max_branches=6, max_ncomp=4)
        shape = {"kind": "cell", "cells": [c], "share": r.choice(["all", "comp", "none"])}
        nb_hint = len(c["ncomp"])
    prep = []
    B = lambda: [["branch", {"t": "int", "v": o.randrange(64)}]]  # noqa: E731
    chans = o.sample(mech.CHANNELS, o.randint(0, 3))
    for cls in chans:
        prep.append({"op": "insert", "view": B() if o.random() < 0.5 else [], "cls": cls, "name": None})
    for _ in range(o.randint(2, 8)):
        key = o.choice(["radius", "length", "axial_resistivity", "capacitance", "v"] if shape["kind"] == "cell" else ["axial_resistivity", "capacitance", "v", "length"])
        prep.append({"op": "set", "view": B(), "key": key, "val": {"seed": o.randrange(1 << 30)}})
    for cls in chans:
        d = mech.chan_desc(cls)
        for col in list(d["params"]) + list(d["states"]):
            if o.random() < 0.4:
                prep.append({"op": "set", "view": B() if o.random() < 0.7 else [], "key": col, "val": {"seed": o.randrange(1 << 30)}})
    for _ in range(o.randint(0, 3)):
        prep.append({"op": "group", "view": [["branch", {"t": o.choice(["int", "list"]), "v": o.randrange(64) if o.random() < 2 else 0}]], "name": o.choice(["g1", "g2"])})
    for p in prep:
        if p["op"] == "group" and p["view"][0][1]["t"] == "list":
            p["view"][0][1]["v"] = [o.randrange(64) for _ in range(o.randint(1, 3))]
    names_ = sorted({p["name"] for p in prep if p["op"] == "group"})
    if names_ and o.random() < 0.4:
        # a group made from another group's view, and a group extended by a second call: the stored index arrays of
        # the groups may then alias each other or be writable, which the later set_ncomp calls must not care about
        src = o.choice(names_)
        if o.random() < 0.7:
            prep.append({"op": "group", "view": [["branch", {"t": "int", "v": o.randrange(64)}]], "name": src})  # src assembled in steps
        prep.append({"op": "group", "view": [["group", src]], "name": o.choice([n_ for n_ in ["g1", "g2", "g3"] if n_ != src])})
    if shape["kind"] == "cell" and o.random() < 0.3:
        # a group made from select(nodes=[...]) with the compartments of whole branches listed in descending branch
        # order: the stored index array is not ascending when the set_ncomp calls re-index it
        nc_ = shape["cells"][0]["ncomp"]
        off_ = [sum(nc_[:b_]) for b_ in range(len(nc_))]
        bs_ = sorted(o.sample(range(len(nc_)), min(len(nc_), o.randint(2, 3))), reverse=True)
        comps_ = [off_[b_] + k_ for b_ in bs_ for k_ in range(nc_[b_])]
        prep.append({"op": "group", "view": [["select_nodes", {"t": "ulist", "v": comps_}]], "name": "g3", "branches": bs_})
    calls = []
    for _ in range(o.randint(1, 5)):
        k = o.random()
        if k < 0.12:
            calls.append({"op": "persist", "how": o.choice(["pickle", "deepcopy"])})
        elif k < 0.2:
            calls += [{"op": "record", "view": [], "state": "v"}, {"op": "set_ncomp", "branch": o.randrange(64), "n": o.randint(1, 5)},
                      {"op": "delete_recordings", "view": []}]
        elif k < 0.26:
            calls += [{"op": "stimulate", "view": [["branch", {"t": "int", "v": 0}], ["comp", {"t": "int", "v": 0}]], "len": 4, "seed": 1},
                      {"op": "set_ncomp", "branch": o.randrange(64), "n": o.randint(1, 5)}, {"op": "delete_stimuli", "view": []}]
        elif k < 0.3:
            calls.append({"op": "set_ncomp_all", "n": o.randint(1, 4)})
        elif k < 0.36 and shape["kind"] == "cell":
            calls.append({"op": "loop_set_ncomp", "ns": [o.choice([None, None, 1, 2, 3, 4]) for _ in range(6)]})
        elif k < 0.42:
            # refused call in the middle of the sequence: a branch made non-uniform is re-discretised (must be refused),
            # made uniform again, and the sequence goes on — the refused call must have left nothing behind
            b_ = o.randrange(64)
            key = o.choice(["capacitance", "axial_resistivity"] + ([] if shape["kind"] == "swc" else ["radius"]))
            calls += [{"op": "set", "view": [["branch", {"t": "int", "v": b_}], ["comp", {"t": "int", "v": 0}]], "key": key, "val": {"seed": o.randrange(1 << 30)}},
                      {"op": "set_ncomp", "branch": b_, "n": o.randint(1, 5)},
                      {"op": "set", "view": [["branch", {"t": "int", "v": b_}]], "key": key, "val": {"seed": o.randrange(1 << 30)}}]
        else:
            c_ = {"op": "set_ncomp", "branch": o.randrange(64), "n": o.randint(1, 5)}
            if o.random() < 0.12:
                c_["odd"] = o.choice(["part", "multi"])  # refused call inside the sequence: some compartments of a branch / two branches
            if o.random() < 0.25:
                c_["min_radius"] = o.choice([0.3, 0.6, 1.0, 1.5])  # caps the SWC radius profile of *this* call only
            calls.append(c_)
    return {"prop": PROPERTY, "shape": shape, "prep": prep, "calls": calls, "steps": o.randint(3, 10), "dt": o.choice(DTS),
            "solver": o.choice(["bwd_euler", "bwd_euler", "crank_nicolson"]), "stim_seed": o.randrange(1 << 30), "integrate_first": o.random() < 0.5}


def apply_prep(w, prep, start=0):
    i = start
    for op in prep:
        if w.stopped or w.violations:
            break
        apply_op(w, op, i)
        i += 1
    return i


def loc_probes(w, i):
    """Read-only `loc` views on every branch, checked against the reference view algebra: positions along a branch
    must be resolved against the *current* discretisation of all branches, before and after every set_ncomp."""
    from .c11 import probe_view

    if w.stopped or w.violations:
        return
    before = len(w.violations)
    for b_ in range(len(w.ref.ncomp_per_branch)):
        for x in (0.0, 0.37, 1.0):
            probe_view(w, {"view": [["branch", {"t": "int", "v": b_}], ["loc", x]]}, i)
    probe_view(w, {"view": [["loc", 1.0]]}, i)
    probe_view(w, {"view": [["loc", 0.0]]}, i)
    for v in w.violations[before:]:
        v["message"] = "loc view around set_ncomp: " + v["message"]
        v["oracle"] = "setncomp_surroundings"


def execute(program):
    w = World(program["shape"])
    w.sim_ms = 0.0
    is_swc = program["shape"]["kind"] == "swc"
    i = apply_prep(w, program["prep"])
    states, transitions = set(), set()

    def res():
        faults_ = sum(v for k, v in w.stats.items() if k.startswith("fault_"))
        return {"violations": w.violations, "stats": w.stats, "digest": w.chain.h, "events": len(w.chain.events), "sim_time_ms": w.sim_ms,
                "integrate_calls": w.stats.get("integrate_calls", 0), "abstract_states": sorted(states), "transitions": sorted(transitions),
                "nontrivial": w.stats.get("oracle_direct", 0) > 0 and faults_ > 0, "stopped": w.stopped}

    if w.stopped or w.violations:
        return res()
    if program.get("integrate_first"):
        # the module was already simulated once before it is re-discretised (integrate must leave nothing behind that a
        # later structural edit does not refresh)
        try:
            with quiet():
                w.m.record("v", verbose=False)
                w.m.select(nodes=[0]).stimulate(jnp.asarray([0.03, 0.05, 0.02]), verbose=False)
            for vs_ in BACKENDS:
                try:
                    simrun.integrate(w.m, dt=program["dt"], solver=program["solver"], vsolver=vs_)
                except Exception as e:  # noqa: BLE001
                    if exc_in_harness(e):
                        raise HarnessError(str(e)) from e
            with quiet():
                w.m.delete_recordings()
                w.m.delete_stimuli()
            w.bump("fault_knob_integrate_before_set_ncomp")
        except HarnessError:
            raise
    # total length of every branch before any set_ncomp (the quantity set_ncomp must preserve)
    branch_total = {}
    for row in range(w.ref.n):
        branch_total[w.ref.branch[row]] = branch_total.get(w.ref.branch[row], 0.0) + w.ref.cols["length"][row]
    n_set = 0
    loc_probes(w, i)  # before any set_ncomp (whatever the library remembers about the discretisation is now warm)
    for c in program["calls"]:
        if w.stopped or w.violations:
            break
        s0 = snap.digest(abstract_state(w.ref))[:12]
        states.add(s0)
        transitions.add(f"{s0}:{c['op']}")
        if c["op"] == "persist":
            try:
                m2 = faults.persist(w.m, c["how"])
            except faults.PersistFailed as e_:
                w.violate("copy_equal", str(e_), i)
                break
            a, b = snap.snapshot(w.m), snap.snapshot(m2)
            if a != b:
                w.violate("copy_equal", "copy between set_ncomp calls differs: " + "; ".join(snap.diff(a, b)[:3]), i)
            w.m = m2
            w.bump("fault_persist_" + c["how"])
        elif c["op"] == "loop_set_ncomp":
            # the natural "for branch in cell.branches: branch.set_ncomp(n)" loop: every view is produced by the iterator
            # *after* the previous call changed the compartment structure
            from ..refmodule import Reject as _Reject, Unspec as _Unspec

            ns = c["ns"]
            try:
                with quiet():
                    it = iter(w.m.branches)
                    for b_ in range(len(w.ref.ncomp_per_branch)):
                        try:
                            br = next(it)
                        except Exception as e:  # noqa: BLE001
                            if exc_in_harness(e):
                                raise HarnessError(str(e)) from e
                            w.violate("setncomp_surroundings", f"iterating over cell.branches raised {exc_text(e)} after set_ncomp calls made inside the loop", i)
                            break
                        n_ = ns[b_ % len(ns)]
                        if n_ is None:
                            continue
                        rvb = w.ref.root().at("branch", [b_])
                        keep = w.ref.clone()
                        try:
                            w.ref.set_ncomp(rvb, n_)
                            expect_raise = False
                        except _Reject:
                            w.ref = keep
                            expect_raise = True
                        except _Unspec:
                            w.ref = keep
                            w.stopped = "loop_set_ncomp: unspecified"
                            break
                        try:
                            br.set_ncomp(n_)
                            raised_ = False
                        except Exception as e:  # noqa: BLE001
                            if exc_in_harness(e):
                                raise HarnessError(str(e)) from e
                            raised_ = True
                            if not expect_raise:
                                w.violate("setncomp_surroundings", f"set_ncomp({n_}) on branch {b_} inside a loop over cell.branches raised {exc_text(e)}", i)
                                break
                        if expect_raise and not raised_:
                            w.stopped = "loop_set_ncomp: predicted refusal accepted"
                            break
                        w.bump("op_set_ncomp")
                w.bump("fault_knob_loop_over_branches")
            except HarnessError:
                raise
            if not w.violations and not w.stopped:
                d_ = conform(w.ref, w.m)
                if d_:
                    w.violate("setncomp_surroundings", "after set_ncomp calls inside a loop over cell.branches: " + "; ".join(d_[:4]), i)
                loc_probes(w, i)
        elif c["op"] == "set_ncomp_all":
            before = snap.snapshot(w.m, with_xyzr=False)
            try:
                with quiet():
                    w.m.set_ncomp(c["n"])
                w.bump("reject_not_raised")
                w.stopped = "set_ncomp on all branches was accepted"
            except Exception as e:  # noqa: BLE001
                if exc_in_harness(e):
                    raise HarnessError(str(e)) from e
                w.bump("fault_reject")
                if snap.snapshot(w.m, with_xyzr=False) != before:
                    w.bump("non_atomic_reject")
                    w.stopped = "rejected set_ncomp changed the tables"
                    from ..invariants import structural_invariants

                    d2 = structural_invariants(w.m)
                    if d2:
                        w.violate("setncomp_surroundings", "after a refused set_ncomp: " + "; ".join(d2[:4]), i, {"after_refused_call": True})
        else:
            before_v = len(w.violations)
            out = apply_op(w, c, i)
            for v in w.violations[before_v:]:
                if v["oracle"] in ("tables_conform", "structural_invariant") and c["op"] == "set_ncomp":
                    v["oracle"] = "setncomp_surroundings"
            if c["op"] == "set_ncomp" and out.get("outcome") == "accepted":
                n_set += 1
                loc_probes(w, i)
                b = out.get("branch")
                ncb = w.ref.ncomp_per_branch
                if any(ncb[p] < max(ncb) for p in set(w.ref.parents) if p >= 0):
                    w.bump("probe_parent_shorter_than_max")
                if w.ref.groups:
                    w.bump("probe_group_after_set_ncomp")
                if is_swc and not w.violations:
                    # SWC radius profile and lengths of the branch equal those of a direct read with n compartments
                    direct = shape_of_swc(program["shape"]["swc_text"], c["n"], c.get("min_radius"))
                    got = w.m.nodes[w.m.nodes["global_branch_index"] == b]
                    exp = direct.nodes[direct.nodes["global_branch_index"] == b]
                    w.bump("oracle_swc_direct")
                    for col in ("radius", "length"):
                        g_, e_ = got[col].tolist(), exp[col].tolist()
                        if col == "length" and abs(sum(e_) - branch_total[b]) > 1e-9 * max(1.0, branch_total[b]):
                            continue  # the branch was given another length after reading: the total set before must be kept (RefModule), not the file's
                        if len(g_) != len(e_) or not all(feq(x, y, 1e-12) for x, y in zip(g_, e_)):
                            w.violate("setncomp_equals_direct", f"branch {b} after set_ncomp({c['n']}): {col} {g_} but read_swc(ncomp={c['n']}) gives {e_}", i)
                            break
        i += 1
    if w.stopped or w.violations:
        return res()
    # a module-level trainable after the sequence: one shared parameter for the whole cell (nothing of the per-branch
    # calls may linger in the sharing bookkeeping)
    j0 = i
    for op_ in ({"op": "make_trainable", "view": [], "key": "radius", "init": None, "seed": 1}, {"op": "delete_trainables", "view": []}):
        before_v = len(w.violations)
        apply_op(w, op_, j0)
        j0 += 1
        for v in w.violations[before_v:]:
            if v["oracle"] in ("tables_conform", "structural_invariant"):
                v["oracle"] = "setncomp_surroundings"
    if w.stopped or w.violations:
        return res()
    # ---- (i) tables equal a directly built module (hand-built cells)
    final = list(w.ref.ncomp_per_branch)
    direct_w = None
    if not is_swc:
        shape2 = copy.deepcopy(program["shape"])
        shape2["cells"][0]["ncomp"] = final
        direct_w = World(shape2)
        # (a group given as a list of compartments denotes, in the directly built module, the same *branches*)
        j_ = apply_prep(direct_w, [dict(p_, view=[["branch", {"t": "list", "v": p_["branches"]}]]) if p_.get("branches") else p_ for p_ in program["prep"]])
        # whole-branch assignments made between the set_ncomp calls belong to the directly built module as well
        j_ = apply_prep(direct_w, [c for c in program["calls"] if c["op"] == "set" and len(c["view"]) == 1], j_)
        # "built directly with n compartments in that branch": same branch length, so length per compartment = total / n
        for b_, n_ in enumerate(final):
            if not direct_w.violations and not direct_w.stopped:
                apply_op(direct_w, {"op": "set", "view": [["branch", {"t": "int", "v": b_}]], "key": "length", "val": branch_total[b_] / n_}, j_ + b_)
        if direct_w.violations or direct_w.stopped:
            direct_w = None
        else:
            w.bump("oracle_direct")
            d = conform(ref_from_module(direct_w.m), w.m)
            if d:
                w.violate("setncomp_equals_direct", "tables after the set_ncomp sequence differ from a module built directly with "
                          f"ncomp={final}: " + "; ".join(d[:4]), i)
                return res()
    else:
        w.bump("oracle_direct")
    # ---- (iii)/(iv) simulation with every backend
    steps, dt = program["steps"], program["dt"]
    stim = np.asarray([0.02 + 0.05 * ((program["stim_seed"] >> k) & 1) for k in range(steps)])

    def arm(m):
        with quiet():
            m.delete_recordings()
            m.record("v", verbose=False)
            m.delete_stimuli()
            m.select(nodes=[0]).stimulate(jnp.asarray(stim), verbose=False)

    arm(w.m)
    others = {}
    if direct_w is not None:
        arm(direct_w.m)
        others["directly built module"] = direct_w.m
    try:
        tw = twin.twin_from_tables(w.m)
        others["canonical twin"] = tw
    except twin.TwinUnbuildable:
        pass
    except Exception as e:  # noqa: BLE001
        raise HarnessError(f"twin: {type(e).__name__}: {e}") from e
    try:
        expect, _ = refsim.RefSim(ref_from_module(w.m), program["solver"]).run(steps, dt)
    except Exception as e:  # noqa: BLE001
        raise HarnessError(f"RefSim failed: {type(e).__name__}: {e}") from e
    outs = {}
    for vs in BACKENDS:
        w.bump("fault_knob_" + vs)
        try:
            outs[vs] = simrun.integrate(w.m, dt=dt, solver=program["solver"], vsolver=vs)
            w.bump("integrate_calls")
        except Exception as e:  # noqa: BLE001
            if exc_in_harness(e):
                raise HarnessError(str(e)) from e
            if is_backend_refusal(e):
                w.bump("probe_backend_refusal")
                continue
            w.violate("backends_agree", f"{vs} raised {exc_text(e)} after the set_ncomp sequence", i)
            return res()
        w.sim_ms += steps * dt
        if not simrun.close(outs[vs], expect, **TOL_REF):
            d = np.abs(outs[vs] - expect).max(axis=1)
            w.violate("backends_agree", f"{vs} differs from the reference simulation of the displayed tables by {d.max():.3e} "
                      f"(ncomp_per_branch={final}, parents={w.ref.parents})", i, {"vsolver": vs})
            return res()
        for name, om in others.items():
            try:
                o2 = simrun.integrate(om, dt=dt, solver=program["solver"], vsolver=vs)
            except Exception as e:  # noqa: BLE001
                if exc_in_harness(e):
                    raise HarnessError(str(e)) from e
                w.violate("setncomp_equals_direct", f"{name} raised {exc_text(e)} with {vs} while the set_ncomp module simulated", i)
                return res()
            w.bump("oracle_sim_equal")
            if not simrun.close(outs[vs], o2, **TOL_SAME):
                w.violate("setncomp_equals_direct", f"{vs}: module after set_ncomp differs from the {name} by {simrun.maxdiff(outs[vs], o2):.3e}", i, {"vsolver": vs})
                return res()
    if "jax.sparse" not in outs:
        w.violate("backends_agree", "jax.sparse refused the model", i)
    w.chain.add("final", {"ncomp": final, "out": snap.arrays_digest(*[outs[k] for k in sorted(outs)])})
    return res()


def simplify(program):
    for field, simple in (("solver", "bwd_euler"), ("dt", 0.025)):
        if program.get(field) != simple:
            q = copy.deepcopy(program)
            q[field] = simple
            yield q
    if program["steps"] > 2:
        q = copy.deepcopy(program)
        q["steps"] = 2
        yield q
    for i, c in enumerate(program["calls"]):
        if c.get("n", 1) > 1:
            q = copy.deepcopy(program)
            q["calls"][i]["n"] = c["n"] - 1
            yield q
    for i, op in enumerate(program["prep"]):
        if op.get("view"):
            q = copy.deepcopy(program)
            q["prep"][i]["view"] = []
            yield q
