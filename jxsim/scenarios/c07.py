"""C07 — simulations compose in time.

Workload: a set-up history, then a run of N <= 24 steps whose inputs are fed through data_stimulate / data_clamp
(tails can be handed to the continuation), through module-level stimulate/clamp (delete + re-insert the tail) or not
at all.  Fault kind `restart`: the run is cut after n1 steps keeping only `all_states` (as returned, through pickle,
or through NumPy), optionally the module itself is replaced by its pickle / deepcopy, and the run resumes; every
segment draws its own checkpoint_lengths (products larger than the segment included) and jit flag.  Quick: sampled cut
points plus the extremes; thorough: every cut point 1..N-1 and repeated splitting.  Manual stepping with
build_init_and_step_fn is a third execution of the same steps.
Oracles: split_equals_whole, continuation_starts_at_last_column, manual_steps_equal,
returned_states_are_last_timepoint."""
import copy
import math
import pickle

from .. import env

env.setup()
import jax  # noqa: E402
import jax.numpy as jnp  # noqa: E402
import numpy as np  # noqa: E402
import jaxley as jx  # noqa: E402
from jaxley.integrate import build_init_and_step_fn  # noqa: E402

from .. import faults, mech, simrun, snap  # noqa: E402
from ..driver import HarnessError, World, exc_in_harness, exc_text, is_backend_refusal, quiet  # noqa: E402
from ..ops import apply_op  # noqa: E402
from ..program import DTS, DryWorld, abstract_state, gen_op, init_value_ops  # noqa: E402
from ..seedtree import stream, uval  # noqa: E402
from ..shapes import gen_any_shape  # noqa: E402

PROPERTY = "C07"
LEVEL = "fault_enumeration"
RUNS = {"quick": 48, "thorough": 1500}
WALL = {"quick": 1500, "thorough": 6 * 3600}
LIST_FIELDS = ["ops", "splits", "stims"]
STUBS = ["pickle buffer / NumPy conversion carrying all_states across the restart", "pickle / deepcopy of the module between segments"]
ASSUMPTIONS = ["restart points are enumerated inside sampled runs (quick: sampled cuts + extremes; thorough: every cut 1..N-1)",
               "tolerance 1e-9 relative/absolute between two executions of the same jaxley numerics; bit equality where stated"]
SETUP = ["set", "insert", "connect", "record", "group", "init_states"]


def _ckpt(r, n):
    k = r.random()
    if k < 0.45:
        return None
    if k < 0.6:
        return [n]
    a = r.randint(1, max(1, n))
    b = -(-n // a)
    if k < 0.8:
        return [a, b]  # product >= n, often > n
    if k < 0.9:
        return [n + r.randint(1, 3)]  # strictly larger
    c = r.randint(1, 2)
    return [a, b, c]


def generate(seed, tier="quick"):
    r = stream(seed, "shape")
    shape = gen_any_shape(r, max_cells=3, max_branches=3, max_ncomp=3)
    o = stream(seed, "ops")
    cfg = {"L": 8, "channels": o.sample(mech.CHANNELS, o.randint(1, 4)), "synapses": o.sample(mech.SYNAPSES, o.randint(1, 2)), "max_edges": 5}
    dw = DryWorld(shape)
    ops = []
    for op in init_value_ops(o, dw.ref):
        dw.dry_apply(op)
        ops.append(op)
    sw = {"set": 2, "insert": 3, "connect": 3, "record": 4, "group": 1, "init_states": 1, "make_trainable": 2}
    for _ in range(o.randint(3, 12)):
        op = gen_op(o, dw, sw, cfg)
        if op is not None and dw.dry_apply(op) == "accept":
            ops.append(op)
    if not dw.ref.recordings:
        op = {"op": "record", "view": [], "state": "v"}
        dw.dry_apply(op)
        ops.append(op)
    N = o.randint(3, 24 if tier == "thorough" else 16)
    mode = o.choice(["data", "data", "static", "none"])
    stims = [{"target": o.randrange(1 << 16), "seed": o.randrange(1 << 30)} for _ in range(o.randint(1, 3))] if mode != "none" else []
    clamp = None
    if mode != "none" and o.random() < 0.5:
        states = ["v"] + [s for c in dw.ref.chans.values() for s in c["states"]]
        clamp = {"state": o.choice(states), "target": o.randrange(1 << 16), "seed": o.randrange(1 << 30)}
    cuts = sorted(set([1, N - 1] + [o.randint(1, N - 1) for _ in range(2)])) if tier == "quick" else list(range(1, N))
    splits = []
    for c in cuts:
        splits.append({"cuts": [c], "transport": [o.choice(["asis", "pickle", "numpy"])],
                       "ckpt": [_ckpt(o, c), _ckpt(o, N - c)], "jit": [o.random() < 0.2, o.random() < 0.2],
                       "persist": o.choice([None, None, None, "pickle", "deepcopy"]), "reuse_checkpoint": o.random() < 0.4})
    for _ in range(1 if tier == "quick" else 3):
        k = o.randint(2, min(3, N - 1)) if N > 2 else 1
        cs = sorted(o.sample(range(1, N), k)) if N - 1 >= k else [1]
        segs = [b - a for a, b in zip([0] + cs, cs + [N])]
        splits.append({"cuts": cs, "transport": [o.choice(["asis", "pickle", "numpy"]) for _ in cs],
                       "ckpt": [_ckpt(o, s) for s in segs], "jit": [o.random() < 0.2 for _ in segs],
                       "persist": o.choice([None, None, "pickle", "deepcopy"]), "reuse_checkpoint": o.random() < 0.4})
    return {"prop": PROPERTY, "shape": shape, "ops": ops, "N": N, "dt": o.choice(DTS), "feed": mode, "stims": stims, "clamp": clamp, "tmax_cut": o.random() < 0.5,
            "solver": o.choice(["bwd_euler", "bwd_euler", "crank_nicolson"]),
            "vsolver": o.choice(["jaxley.stone", "jaxley.thomas", "jax.sparse"]),
            "ref_ckpt": _ckpt(o, N), "manual": o.random() < 0.5, "splits": splits, "pseed": o.randrange(1 << 30), "use_params": o.random() < 0.8, "manual_plain": o.random() < 0.3}


# --------------------------------------------------------------------------------------------- execution helpers
def transport(states, how):
    if how == "asis":
        return states
    as_np = jax.tree_util.tree_map(np.asarray, states)
    if how == "pickle":
        return pickle.loads(pickle.dumps(as_np))
    return jax.tree_util.tree_map(jnp.asarray, as_np)


class Feed:
    """Inputs of the run and how to hand a time slice [a, b) of them to one integrate call."""

    def __init__(self, w, program):
        ref = w.ref
        self.mode = program["feed"]
        N = program["N"]
        self.N = N
        # static inputs left at their full remaining length and the segment cut out of them with t_max (the usual way)
        self.tmax_cut = bool(program.get("tmax_cut"))
        self.stims = []
        for s in program["stims"]:
            t = s["target"] % ref.n
            self.stims.append((t, np.asarray([uval(s["seed"], "stim", j, -0.05, 0.1) for j in range(N)])))
        self.clamp = None
        c = program.get("clamp")
        if c is not None and self.mode != "none":
            st = c["state"]
            owners = [n for n, ch in ref.chans.items() if st in ch["states"]]
            rows = list(range(ref.n)) if st == "v" else [i for i in range(ref.n) if owners and ref.flags[owners[0]][i]]
            if rows:
                t = rows[c["target"] % len(rows)]
                lo, hi = (-75.0, -45.0) if st == "v" else (0.05, 0.95)
                self.clamp = (st, t, np.asarray([uval(c["seed"], "clamp", j, lo, hi) for j in range(N)]))

    def install_static(self, m, a, b):
        with quiet():
            m.delete_stimuli()
            m.delete_clamps()
            for t, arr in self.stims:
                m.select(nodes=[t]).stimulate(jnp.asarray(arr[a:b]), verbose=False)
            if self.clamp is not None:
                st, t, arr = self.clamp
                m.select(nodes=[t]).clamp(st, jnp.asarray(arr[a:b]), verbose=False)

    def kwargs(self, m, a, b):
        """integrate keyword arguments feeding the slice [a, b)."""
        if self.mode == "none":
            return {"steps": b - a}
        if self.mode == "static":
            if self.tmax_cut:
                self.install_static(m, a, self.N)
                return {"steps": b - a}
            self.install_static(m, a, b)
            return {}
        ds = None
        with quiet():
            for t, arr in self.stims:
                ds = m.select(nodes=[t]).data_stimulate(jnp.asarray(arr[a:b]), ds)
            dc = None
            if self.clamp is not None:
                st, t, arr = self.clamp
                dc = m.select(nodes=[t]).data_clamp(st, jnp.asarray(arr[a:b]), None)
        return {"data_stimuli": ds, "data_clamps": dc}

    def step_externals(self, k):
        ext, inds = {}, {}
        if self.stims:
            ext["i"] = jnp.asarray([arr[k] for _, arr in self.stims])
            inds["i"] = jnp.asarray([t for t, _ in self.stims])
        if self.clamp is not None:
            st, t, arr = self.clamp
            ext[st] = jnp.asarray([arr[k]])
            inds[st] = jnp.asarray([t])
        return ext, inds


def state_entry(ref, states, idx, state):
    """Value of (idx, state) inside an all_states dict — synaptic states are stored per type (rank within type)."""
    if state in ref.comp_states():
        return float(np.asarray(states[state])[idx])
    owner = ref.syn_of_state(state)
    rank = [e for e, ed in enumerate(ref.edges) if ed["type"] == owner].index(idx)
    return float(np.asarray(states[state])[rank])


def execute(program):
    w = World(program["shape"])
    w.sim_ms = 0.0
    for i, op in enumerate(program["ops"]):
        if w.stopped or w.violations:
            break
        apply_op(w, op, i)
    res = lambda: {"violations": w.violations, "stats": w.stats, "digest": w.chain.h, "events": len(w.chain.events), "sim_time_ms": w.sim_ms,  # noqa: E731
                   "integrate_calls": w.stats.get("integrate_calls", 0), "abstract_states": [snap.digest(abstract_state(w.ref))[:12]],
                   "transitions": sorted(set(f"cut{c}" for s in program["splits"] for c in s["cuts"])),
                   "nontrivial": w.stats.get("fault_restart", 0) > 0 and w.stats.get("oracle_split", 0) > 0, "stopped": w.stopped}
    if w.stopped or w.violations or not w.ref.recordings:
        return res()
    ref, N, dt = w.ref, program["N"], program["dt"]
    feed = Feed(w, program)
    base_kw = dict(dt=dt, solver=program["solver"], vsolver=program["vsolver"])
    nidx = len(program["ops"])

    # trainables (parameters *and* initial states) get values that differ from the tables and are passed to every call;
    # a continuation must start from the handed-over states, not from the trainable initial states
    params = None
    if ref.trainables and program.get("use_params", True):
        params = []
        for t in ref.trainables:
            default, is_state = w.key_default(t["key"])
            lo, hi = mech.value_range(t["key"], default, is_state)
            params.append({t["key"]: jnp.asarray([uval(program.get("pseed", 1), t["key"] + "p", g, lo, hi) for g in range(len(t["groups"]))])})
        w.bump("probe_trainables_passed")
        if any(t["key"] == "v" or w.key_default(t["key"])[1] for t in ref.trainables):
            w.bump("probe_trainable_initial_state")
    base_kw["params"] = params

    def run(m, a, b, ckpt=None, jit=False, states=None):
        kw = dict(base_kw, ckpt=ckpt, mode="jit" if jit else "eager", all_states=states, return_states=True)
        kw.update(feed.kwargs(m, a, b))
        w.bump("integrate_calls")
        w.sim_ms += (b - a) * dt
        return simrun.integrate(m, **kw)

    # ---- uninterrupted reference run (plain: eager, no checkpointing)
    try:
        try:
            full, full_states = run(w.m, 0, N)
        except Exception as e:  # noqa: BLE001
            if exc_in_harness(e):
                raise
            if is_backend_refusal(e) and base_kw["vsolver"] != "jax.sparse":
                w.bump("probe_backend_refusal")
                base_kw["vsolver"] = "jax.sparse"
                full, full_states = run(w.m, 0, N)
            else:
                raise
    except HarnessError:
        raise
    except Exception as e:  # noqa: BLE001
        if exc_in_harness(e):
            raise HarnessError(f"{type(e).__name__}: {e}") from e
        w.violate("unexpected_refusal", f"integrate raised {exc_text(e)} on an accepted history", nidx)
        return res()
    if full.shape != (len(ref.recordings), N + 1):
        w.violate("row_shape", f"shape {full.shape}, expected {(len(ref.recordings), N + 1)}", nidx)
        return res()
    from ..runops import nan_rows

    mask = np.ones(len(ref.recordings), dtype=bool)
    mask[nan_rows(ref)] = False

    def check_states(recs, states, what, steps, ckpt, seg):
        """(iv): every recorded state's entry in all_states equals the last recorded column."""
        bad = None
        for j, (idx, st) in enumerate(ref.recordings):
            if not mask[j] or st not in states:
                continue
            got = state_entry(ref, states, idx, st)
            if not (got == recs[j, -1] or (np.isnan(got) and np.isnan(recs[j, -1]))):
                bad = (j, idx, st, got, float(recs[j, -1]))
                break
        w.bump("oracle_returned_states")
        if bad is None:
            return True
        exceeds = ckpt is not None and math.prod(ckpt) > steps
        detail = {"op": "run", "return_states": True, "ckpt_product_exceeds_steps": bool(exceeds)}
        if exceeds:
            w.bump("probe_ckpt_prod_gt_steps_mismatch")
            detail["signature_ok"] = _f6_signature(w, feed, base_kw, seg, ckpt, states)
        w.violate("returned_states_are_last_timepoint",
                  f"{what}: all_states[{bad[2]}][{bad[1]}] = {bad[3]!r} but the last returned time point shows {bad[4]!r} "
                  f"(steps={steps}, checkpoint_lengths={ckpt})", nidx, detail)
        return False

    check_states(full, full_states, "uninterrupted run", N, None, None)
    # the same run under a drawn checkpoint layout: recordings must agree; returned states are checked too
    if program.get("ref_ckpt") is not None:
        ck = program["ref_ckpt"]
        if math.prod(ck) >= N:
            try:
                f2, s2 = run(w.m, 0, N, ckpt=ck)
            except Exception as e:  # noqa: BLE001
                if exc_in_harness(e):
                    raise HarnessError(f"{type(e).__name__}: {e}") from e
                w.violate("unexpected_refusal", f"integrate with checkpoint_lengths={ck} raised {exc_text(e)}", nidx)
                return res()
            if math.prod(ck) > N:
                w.bump("probe_ckpt_prod_gt_steps")
            if not simrun.close(full, f2):
                w.violate("split_equals_whole", f"recordings with checkpoint_lengths={ck} differ from the plain run by {simrun.maxdiff(full, f2):.3e}", nidx)
            w._seg = (0, N, None)
            check_states(f2, s2, f"run with checkpoint_lengths={ck}", N, ck, (0, N, None))
    if w.violations and not all(_is_f6(v) for v in w.violations):
        return res()

    # ---- manual stepping (third execution of the same steps)
    if program.get("manual") and feed.mode != "static":
        try:
            man = manual_steps(w, feed, base_kw, N, dt)
        except HarnessError:
            raise
        except Exception as e:  # noqa: BLE001
            if exc_in_harness(e):
                raise HarnessError(f"manual: {type(e).__name__}: {e}") from e
            man = None
            w.violate("manual_steps_equal", f"stepping with build_init_and_step_fn raised {exc_text(e)}", nidx)
        if man is not None:
            w.bump("oracle_manual")
            if not simrun.close(full[mask], man[mask]):
                w.violate("manual_steps_equal", f"manual stepping differs from integrate by {simrun.maxdiff(full[mask], man[mask]):.3e}", nidx)

    # ---- manual stepping as a plain Python loop: un-jitted step_fn, one externals dict object reused for every step
    #      (constant currents), compared with integrate of the same constant inputs
    if program.get("manual_plain") and feed.mode == "data" and feed.stims and feed.clamp is None:
        Nc = min(N, 6)
        const = copy.copy(feed)
        const.stims = [(t, np.full(N, arr[0])) for t, arr in feed.stims]
        try:
            kwc = dict(base_kw, ckpt=None, mode="eager", all_states=None, return_states=False)
            kwc.update(const.kwargs(w.m, 0, Nc))
            ref_c = simrun.integrate(w.m, **kwc)
            with quiet():
                w.m.to_jax()
                init_fn, step_fn = build_init_and_step_fn(w.m, voltage_solver=base_kw["vsolver"], solver=base_kw["solver"])
                st_, pr_ = init_fn(base_kw.get("params") or [], None, None, dt)
                ext_, inds_ = const.step_externals(0)
                rows_ = [[state_entry(ref, st_, idx, s_) if s_ in st_ else float("nan") for idx, s_ in ref.recordings]]
                for _k in range(Nc):
                    st_ = step_fn(st_, pr_, ext_, inds_, dt)  # same dict objects on every step
                    rows_.append([state_entry(ref, st_, idx, s_) if s_ in st_ else float("nan") for idx, s_ in ref.recordings])
            man_c = np.asarray(rows_, dtype=float).T
        except HarnessError:
            raise
        except Exception as e:  # noqa: BLE001
            if exc_in_harness(e):
                raise HarnessError(f"manual plain: {type(e).__name__}: {e}") from e
            man_c = None
            w.violate("manual_steps_equal", f"plain-Python stepping with build_init_and_step_fn raised {exc_text(e)}", nidx)
        if man_c is not None:
            w.bump("oracle_manual_plain")
            if not simrun.close(ref_c[mask], man_c[mask]):
                w.violate("manual_steps_equal", f"un-jitted manual stepping with one reused externals dict differs from integrate by {simrun.maxdiff(ref_c[mask], man_c[mask]):.3e}", nidx,
                          {"manual_plain": True})

    # ---- restarts
    for si, sp in enumerate(program["splits"]):
        if [v for v in w.violations if not _is_f6(v)]:
            break
        cuts = [c for c in sorted(set(min(max(1, c), N - 1) for c in sp["cuts"]))]
        bounds = list(zip([0] + cuts, cuts + [N]))
        m = w.m
        states = None
        pieces = []
        ok = True
        for k, (a, b) in enumerate(bounds):
            ckpt = sp["ckpt"][k] if k < len(sp["ckpt"]) else None
            if ckpt is not None and math.prod(ckpt) < (b - a):
                ckpt = None
            jit = bool(sp["jit"][k]) if k < len(sp["jit"]) else False
            try:
                recs, out_states = run(m, a, b, ckpt=ckpt, jit=jit, states=states)
            except Exception as e:  # noqa: BLE001
                if exc_in_harness(e):
                    raise HarnessError(f"segment: {type(e).__name__}: {e}") from e
                w.violate("split_equals_whole", f"segment [{a},{b}) (checkpoint_lengths={ckpt}, jit={jit}) raised {exc_text(e)}", nidx)
                ok = False
                break
            if ckpt is not None and math.prod(ckpt) > (b - a):
                w.bump("probe_ckpt_prod_gt_steps")
            if states is not None and sp.get("reuse_checkpoint") and not jit:
                # the same checkpoint (all_states object) is used for a second continuation: integrate must not have
                # modified it, so the second continuation is bit-identical to the first
                try:
                    recs_again, _ = run(m, a, b, ckpt=ckpt, jit=False, states=states)
                except Exception as e:  # noqa: BLE001
                    if exc_in_harness(e):
                        raise HarnessError(f"segment: {type(e).__name__}: {e}") from e
                    recs_again = None
                w.bump("oracle_checkpoint_reuse")
                if recs_again is None or not np.array_equal(recs, recs_again, equal_nan=True):
                    w.violate("split_equals_whole", f"continuing twice from the same returned states (segment [{a},{b})) gives different recordings"
                              + (f" (max diff {simrun.maxdiff(recs, recs_again):.3e})" if recs_again is not None else " (second call raised)")
                              + ": integrate modified the caller's all_states", nidx, {"checkpoint_reuse": True})
                    ok = False
                    break
            if recs.shape != (len(ref.recordings), b - a + 1):
                w.violate("row_shape", f"segment [{a},{b}) returned shape {recs.shape}", nidx)
                ok = False
                break
            if pieces:
                w.bump("oracle_continuation")
                prev = pieces[-1][:, -1]
                if not np.array_equal(recs[mask, 0], prev[mask], equal_nan=True):
                    w.violate("continuation_starts_at_last_column", f"continuation at step {a} starts at {recs[mask, 0][:4]} but the predecessor ended at {prev[mask][:4]}", nidx,
                              {"cut": a})
                    ok = False
                    break
            pieces.append(recs)
            if not check_states(recs, out_states, f"segment [{a},{b})", b - a, ckpt, (a, b, states)):
                f6 = _is_f6(w.violations[-1])
                if not f6:
                    ok = False
                    break
            if ckpt is not None or jit:
                # the same segment as a plain (eager, un-checkpointed) call: recordings and *all* returned states
                # must agree; the plain states carry the split on, so a layout problem does not mask later cuts
                try:
                    recs0, states0 = run(m, a, b, states=states)
                except Exception as e:  # noqa: BLE001
                    if exc_in_harness(e):
                        raise HarnessError(f"segment: {type(e).__name__}: {e}") from e
                    w.violate("split_equals_whole", f"plain segment [{a},{b}) raised {exc_text(e)}", nidx)
                    ok = False
                    break
                w.bump("oracle_layout_vs_plain")
                if not simrun.close(recs[mask], recs0[mask]):
                    w.violate("split_equals_whole", f"segment [{a},{b}) with checkpoint_lengths={ckpt}, jit={jit} differs from the plain call by {simrun.maxdiff(recs[mask], recs0[mask]):.3e}", nidx)
                    ok = False
                    break
                diffkeys = [key for key in states0 if key in out_states and not simrun.close(np.asarray(states0[key]), np.asarray(out_states[key]))]
                if diffkeys and not (w.violations and _is_f6(w.violations[-1]) and w.violations[-1].get("_seg") == (si, k)):
                    exceeds = ckpt is not None and math.prod(ckpt) > (b - a)
                    detail = {"op": "run", "return_states": True, "ckpt_product_exceeds_steps": bool(exceeds)}
                    if exceeds:
                        detail["signature_ok"] = _f6_signature(w, feed, base_kw, (a, b, states), ckpt, out_states)
                    w.violate("returned_states_are_last_timepoint", f"segment [{a},{b}) with checkpoint_lengths={ckpt}: returned all_states{diffkeys[:3]} differ from those "
                              f"of the plain call of the same segment by {max(simrun.maxdiff(np.asarray(states0[key]), np.asarray(out_states[key])) for key in diffkeys):.3e}", nidx, detail)
                    if not _is_f6(w.violations[-1]):
                        ok = False
                        break
                out_states = states0
                pieces[-1] = recs0
            if k < len(bounds) - 1:
                how = sp["transport"][k] if k < len(sp["transport"]) else "asis"
                states = transport(out_states, how)
                w.bump("fault_restart")
                w.bump("fault_restart_via_" + how)
                if sp.get("persist") and k == 0:
                    if feed.mode == "static":
                        feed.install_static(m, 0, N)
                    try:
                        m = faults.persist(m, sp["persist"])
                    except faults.PersistFailed as e_:
                        w.violate("copy_equal", str(e_), nidx)
                        ok = False
                        break
                    w.bump("fault_persist_" + sp["persist"])
        if ok:
            cat = np.concatenate([pieces[0]] + [p[:, 1:] for p in pieces[1:]], axis=1)
            w.bump("oracle_split")
            if not simrun.close(full[mask], cat[mask]):
                w.violate("split_equals_whole", f"cuts {cuts}: concatenated segments differ from the uninterrupted run by {simrun.maxdiff(full[mask], cat[mask]):.3e}", nidx,
                          {"cuts": cuts})
            else:
                for key in full_states:
                    if key in out_states and not simrun.close(np.asarray(full_states[key]), np.asarray(out_states[key])):
                        w.violate("split_equals_whole", f"cuts {cuts}: final all_states[{key}] differs from the uninterrupted run by "
                                  f"{simrun.maxdiff(np.asarray(full_states[key]), np.asarray(out_states[key])):.3e}", nidx, {"cuts": cuts})
                        break
            w.chain.add("split", {"cuts": cuts, "out": snap.arrays_digest(cat)})
    if feed.mode == "static":
        feed.install_static(w.m, 0, N)
    w.chain.add("full", {"out": snap.arrays_digest(full)})
    return res()


def _is_f6(v):
    d = v.get("detail") or {}
    return v["oracle"] == "returned_states_are_last_timepoint" and d.get("ckpt_product_exceeds_steps") and d.get("signature_ok")


def _f6_signature(w, feed, base_kw, seg, ckpt, states):
    """Known-finding signature: the returned states equal the states after prod(checkpoint_lengths) steps with all
    inputs zero-padded (integrate pads every external input with zeros and returns the final carry of the scan)."""
    try:
        a, b, start = seg
        P = math.prod(ckpt)
        pad = P - (b - a)
        f2 = copy.copy(feed)
        f2.stims = [(t, np.concatenate([arr[a:b], np.zeros(pad)])) for t, arr in feed.stims]
        f2.clamp = None if feed.clamp is None else (feed.clamp[0], feed.clamp[1], np.concatenate([feed.clamp[2][a:b], np.zeros(pad)]))
        f2.mode = feed.mode
        f2.tmax_cut = False
        kw = dict(base_kw, ckpt=None, mode="eager", all_states=start, return_states=True)
        kw.update(f2.kwargs(w.m, 0, P) if feed.mode != "none" else {"steps": P})
        _, s_long = simrun.integrate(w.m, **kw)
        if feed.mode == "static":
            feed.install_static(w.m, a, b)
        return all(simrun.close(np.asarray(s_long[k]), np.asarray(states[k])) for k in states if k in s_long)
    except Exception:  # noqa: BLE001
        return False


def manual_steps(w, feed, base_kw, N, dt):
    ref, m = w.ref, w.m
    with quiet():
        m.to_jax()
        init_fn, step_fn = build_init_and_step_fn(m, voltage_solver=base_kw["vsolver"], solver=base_kw["solver"])
        states, params = init_fn(base_kw.get("params") or [], None, None, dt)
        step = jax.jit(step_fn, static_argnames=())
        obs = lambda s: [state_entry(ref, s, idx, st) if st in s else float("nan") for idx, st in ref.recordings]  # noqa: E731
        out = [obs(states)]
        for k in range(N):
            ext, inds = feed.step_externals(k) if feed.mode == "data" else ({}, {})
            states = step(states, params, ext, inds, dt)
            out.append(obs(states))
    return np.asarray(out, dtype=float).T


def simplify(program):
    for field, simple in (("solver", "bwd_euler"), ("dt", 0.025), ("manual", False), ("ref_ckpt", None), ("clamp", None), ("vsolver", "jax.sparse"), ("use_params", False), ("manual_plain", False)):
        if program.get(field) != simple:
            q = copy.deepcopy(program)
            q[field] = simple
            yield q
    if program["N"] > 3:
        q = copy.deepcopy(program)
        q["N"] = max(3, program["N"] // 2)
        yield q
        q = copy.deepcopy(program)
        q["N"] = program["N"] - 1
        yield q
    for i, sp in enumerate(program["splits"]):
        for field, simple in (("persist", None),):
            if sp.get(field) is not None:
                q = copy.deepcopy(program)
                q["splits"][i][field] = simple
                yield q
        if any(c is not None for c in sp["ckpt"]):
            for k in range(len(sp["ckpt"])):
                if sp["ckpt"][k] is not None:
                    q = copy.deepcopy(program)
                    q["splits"][i]["ckpt"][k] = None
                    yield q
        if any(sp["jit"]):
            q = copy.deepcopy(program)
            q["splits"][i]["jit"] = [False] * len(sp["jit"])
            yield q
        if any(t != "asis" for t in sp["transport"]):
            q = copy.deepcopy(program)
            q["splits"][i]["transport"] = ["asis"] * len(sp["transport"])
            yield q
        if len(sp["cuts"]) > 1:
            for k in range(len(sp["cuts"])):
                q = copy.deepcopy(program)
                del q["splits"][i]["cuts"][k]
                yield q
    for i, op in enumerate(program["ops"]):
        if op.get("view"):
            for j in range(len(op["view"])):
                q = copy.deepcopy(program)
                del q["ops"][i]["view"][j]
                yield q
