"""C20 — connectivity builders create exactly the requested connections.

Workload: networks of 2-7 irregular cells; sequences of fully_connect / sparse_connect /
connectivity_matrix_connect / connect calls (edges accumulate, several synapse types).
Fault kind `rng`: the global NumPy RNG is seeded per call and, optionally, its outcomes are *forced*
(binomial -> chosen count; choice -> first / last element), enumerating inside one sampled run the
outcomes "zero draws", "exactly one draw", "all draws".
Oracle: reference prediction on the delta of `.edges` per call (builder_pairs, builder_sites,
builder_never_raises) + structural invariants + earlier edges untouched."""
import copy

from .. import env

env.setup()
import numpy as np  # noqa: E402
import jaxley  # noqa: E402,F401
import sys as _sys  # noqa: E402

jc = _sys.modules["jaxley.connect"]  # `jaxley.connect` the attribute is the function; this is the module

from .. import mech, snap  # noqa: E402
from ..driver import World, exc_in_harness, exc_text, quiet, HarnessError, resolve_idx  # noqa: E402
from ..invariants import structural_invariants  # noqa: E402
from ..seedtree import stream  # noqa: E402
from ..shapes import gen_network_shape  # noqa: E402

PROPERTY = "C20"
LEVEL = "fault_enumeration"
RUNS = {"quick": 640, "thorough": 12000}
LIST_FIELDS = ["calls", "groups", "pops"]


def generate(seed, tier="quick"):
    r = stream(seed, "shape")
    ncells = r.randint(2, 7)
    shape = gen_network_shape(r, ncells, max_branches=3, max_ncomp=3)
    o = stream(seed, "ops")
    calls = []
    enabled = [f for f in ("fully", "sparse", "matrix", "connect") if o.random() < 0.75] or ["sparse"]
    syn_pool = [("IonotropicSynapse", None), ("TestSynapse", None), ("TanhRateSynapse", None), ("IonotropicSynapse", "IonoB")]
    for _ in range(o.randint(1, 4)):
        fn = o.choice(enabled)
        cls, name = o.choice(syn_pool)
        call = {"fn": fn, "cls": cls, "name": name,
                "pre": _pop(o, ncells), "post": _pop(o, ncells),
                "np_seed": o.randrange(1 << 30)}
        if fn == "sparse":
            call["p"] = o.choice([0.0, 1e-9, 0.05, 0.3, 0.5, 0.9, 1.0])
            fb = o.random()
            call["force_binomial"] = None if fb < 0.35 else o.choice([0, 1, 1, 2, 3, "max", o.randrange(50)])
        if fn == "matrix":
            call["matrix"] = o.choice(["random", "random", "single", "all_true", "all_false", "row", "col"])
            call["mseed"] = o.randrange(1 << 30)
        if fn == "connect":
            call["pre_comp"] = o.randrange(1000)
            call["post_comp"] = o.randrange(1000)
        if fn != "connect" and o.random() < 0.3:
            call["force_choice"] = o.choice(["first", "last"])
        calls.append(call)
    # populations kept in variables by the session (the same view object serves several builder calls), some of them
    # groups filled by several add_to_group calls in arbitrary order
    groups = []
    for gname in o.sample(["exc", "inh", "mix"], o.randint(0, 2)):
        parts = [sorted(o.sample(range(ncells), o.randint(1, max(1, ncells // 2)))) for _ in range(o.randint(1, 3))]
        o.shuffle(parts)
        groups.append({"name": gname, "parts": parts})
    pops = []
    for g in groups:
        pops.append({"kind": "group", "name": g["name"]})
    for _ in range(o.randint(0, 2)):
        pops.append({"kind": "cells", "idx": _pop(o, ncells)})
    if pops:
        for c in calls:
            if c["fn"] != "connect":
                for side in ("pre", "post"):
                    if o.random() < 0.5:
                        c[side + "_pop"] = o.randrange(len(pops))
    return {"prop": PROPERTY, "shape": shape, "groups": groups, "pops": pops, "calls": calls}


def _pop(o, ncells):
    k = o.random()
    if k < 0.15:
        return {"t": "int", "v": o.randrange(ncells)}
    if k < 0.25:
        return "all"
    if k < 0.4:
        a, b = o.randrange(ncells), o.randrange(ncells)
        return {"t": "range", "a": a, "b": b}
    if k < 0.52:
        # populations written as slices: net.cell(slice(a, b)), every second cell net.cell(slice(None, None, 2)) ...
        a, b = o.randrange(ncells), o.randrange(ncells)
        return {"t": "slice", "a": a if o.random() < 0.6 else None, "b": b, "open": o.random() < 0.4, "step": o.choice([None, 2, 2, 3])}
    size = o.randint(1, ncells)
    return {"t": "list", "v": sorted(o.sample(range(ncells), size))}


class _Seam:
    """The `rng` fault: seed the global NumPy RNG and optionally force outcomes of binomial / choice."""

    def __init__(self, np_seed, force_binomial=None, force_choice=None):
        self.np_seed = np_seed
        self.fb = force_binomial
        self.fc = force_choice
        self.binomial_returns = []
        self.choice_calls = 0
        self.fired = {}

    def __enter__(self):
        self._binomial = np.random.binomial
        self._choice = np.random.choice
        np.random.seed(self.np_seed)
        seam = self

        def binomial(n, p, size=None):
            if seam.fb is None:
                out = seam._binomial(n, p, size)
            else:
                seam._binomial(n, p, size)  # keep the stream position identical
                out = int(n) if seam.fb == "max" else int(seam.fb) % (int(n) + 1)
                seam.fired["rng_forced_binomial"] = seam.fired.get("rng_forced_binomial", 0) + 1
            seam.binomial_returns.append(int(out))
            return out

        def choice(a, size=None, replace=True, p=None):
            seam.choice_calls += 1
            real = seam._choice(a, size=size, replace=replace, p=p)
            if seam.fc is None:
                return real
            arr = np.arange(a) if isinstance(a, (int, np.integer)) else np.asarray(a)
            pick = arr[0] if seam.fc == "first" else arr[-1]
            seam.fired["rng_forced_choice"] = seam.fired.get("rng_forced_choice", 0) + 1
            if size is None:
                return pick
            return np.full(np.shape(real), pick, dtype=arr.dtype)

        np.random.binomial = binomial
        np.random.choice = choice
        return self

    def __exit__(self, *a):
        np.random.binomial = self._binomial
        np.random.choice = self._choice


def execute(program):
    w = World(program["shape"])
    m, ref = w.m, w.ref
    ncells = len(set(ref.cell))
    cell_of = ref.cell
    first_comp = {c: min(i for i in range(ref.n) if ref.cell[i] == c) for c in set(ref.cell)}
    states = set()
    sim = {"builder_calls": 0, "edges_created": 0}
    group_cells = {}
    with quiet():
        for g in program.get("groups", []):
            for part in g["parts"]:
                part = sorted(set(c_ % ncells for c_ in part))
                m.cell(part).add_to_group(g["name"])
                group_cells.setdefault(g["name"], set()).update(part)
    pop_views, pop_cells = [], []
    with quiet():
        for pdef in program.get("pops", []):
            if pdef["kind"] == "group" and pdef["name"] in group_cells:
                pop_views.append(getattr(m, pdef["name"]))
                pop_cells.append(sorted(group_cells[pdef["name"]]))
            else:
                ci_, cells_ = resolve_idx(pdef.get("idx", "all"), range(ncells))
                pop_views.append(m.cell(ci_))
                pop_cells.append(list(range(ncells)) if cells_ == "all" else sorted(cells_))
    if pop_views:
        w.bump("probe_shared_population_views", len(pop_views))
    for ci, call in enumerate(program["calls"]):
        fn = call["fn"]
        pre_ci, pre_cells = resolve_idx(call["pre"], range(ncells))
        post_ci, post_cells = resolve_idx(call["post"], range(ncells))
        pre_cells = list(range(ncells)) if pre_cells == "all" else sorted(pre_cells)
        post_cells = list(range(ncells)) if post_cells == "all" else sorted(post_cells)
        pre_view = post_view = None
        if call.get("pre_pop") is not None and pop_views:
            k_ = call["pre_pop"] % len(pop_views)
            pre_view, pre_cells = pop_views[k_], pop_cells[k_]
        if call.get("post_pop") is not None and pop_views:
            k_ = call["post_pop"] % len(pop_views)
            post_view, post_cells = pop_views[k_], pop_cells[k_]
        syn = mech.make_synapse(call["cls"], call.get("name"))
        desc = mech.syn_desc(call["cls"], call.get("name"))
        before = snap.snapshot(m, with_xyzr=False)
        n_before = len(m.edges)
        expected_pairs = None
        matrix = None
        if fn == "matrix":
            matrix = _matrix(call, len(pre_cells), len(post_cells))
            expected_pairs = sorted((pre_cells[i], post_cells[j]) for i in range(len(pre_cells)) for j in range(len(post_cells)) if matrix[i, j])
        elif fn == "fully":
            expected_pairs = sorted((a, b) for a in pre_cells for b in post_cells)
        seam = _Seam(call["np_seed"], call.get("force_binomial"), call.get("force_choice"))
        raised = None
        try:
            with quiet(), seam:
                pv = pre_view if pre_view is not None else (m.cell(pre_ci) if fn != "connect" else None)
                qv = post_view if post_view is not None else (m.cell(post_ci) if fn != "connect" else None)
                if fn == "fully":
                    jc.fully_connect(pv, qv, syn)
                elif fn == "sparse":
                    jc.sparse_connect(pv, qv, syn, call["p"])
                elif fn == "matrix":
                    jc.connectivity_matrix_connect(pv, qv, syn, matrix)
                elif fn == "connect":
                    a = call["pre_comp"] % ref.n
                    b = call["post_comp"] % ref.n
                    jc.connect(m.select(nodes=[a]), m.select(nodes=[b]), syn)
                    expected_pairs = None
        except Exception as e:  # noqa: BLE001
            if exc_in_harness(e):
                raise HarnessError(f"call {ci}: {type(e).__name__}: {e}") from e
            raised = e
        for k, v in seam.fired.items():
            w.bump("fault_" + k, v)
        w.bump("fault_rng_seeded")
        w.bump("call_" + fn)
        where = {"fn": fn, "n_pre": len(pre_cells), "n_post": len(post_cells),
                 "n_pre_ne_n_post": len(pre_cells) != len(post_cells),
                 "binomial": seam.binomial_returns[0] if seam.binomial_returns else None}
        if len(pre_cells) != len(post_cells):
            w.bump("probe_n_pre_ne_n_post")
        if seam.binomial_returns and seam.binomial_returns[0] == 1:
            w.bump("probe_binomial_is_one")
        if seam.binomial_returns and seam.binomial_returns[0] == 0:
            w.bump("probe_binomial_is_zero")
        if raised is not None:
            if fn == "matrix" and not matrix.any():
                w.bump("probe_all_false_matrix_raises")  # unspecified: nothing requested, raising tolerated
                after = snap.snapshot(m, with_xyzr=False)
                if after != before:
                    w.stopped = "all-False matrix raised and changed the tables"
                    break
                w.chain.add("call", {"call": call, "raised": type(raised).__name__})
                continue
            w.violate("builder_never_raises", f"{fn}_connect(n_pre={len(pre_cells)}, n_post={len(post_cells)}, "
                      f"binomial={where['binomial']}) raised {exc_text(raised)}", ci, where)
            break
        sim["builder_calls"] += 1
        ed = m.edges
        new = ed.iloc[n_before:]
        sim["edges_created"] += len(new)
        # earlier edges untouched
        after = snap.snapshot(m, with_xyzr=False)
        for col, vals in before["edges"].items():
            if after["edges"].get(col, [])[:n_before] != vals:
                w.violate("builder_pairs", f"{fn}: column {col} of earlier edges changed", ci, where)
        if before["nodes"] != after["nodes"]:
            w.violate("builder_sites", f"{fn}: .nodes changed", ci, where)
        pre_c = [int(x) for x in new["pre_global_comp_index"].tolist()]
        post_c = [int(x) for x in new["post_global_comp_index"].tolist()]
        pairs = sorted((cell_of[a], cell_of[b]) for a, b in zip(pre_c, post_c))
        if fn == "connect":
            a = call["pre_comp"] % ref.n
            b = call["post_comp"] % ref.n
            if list(zip(pre_c, post_c)) != [(a, b)]:
                w.violate("builder_pairs", f"connect({a}->{b}) created {list(zip(pre_c, post_c))}", ci, where)
        else:
            if expected_pairs is not None and pairs != expected_pairs:
                w.violate("builder_pairs", f"{fn}: created cell pairs {pairs}, requested {expected_pairs}", ci, where)
            if fn == "sparse":
                bad = [(a, b) for a, b in pairs if a not in pre_cells or b not in post_cells]
                if bad:
                    w.violate("builder_pairs", f"sparse: pairs {bad} outside the populations pre={pre_cells} post={post_cells}", ci, where)
                if seam.binomial_returns and len(new) != seam.binomial_returns[0]:
                    w.violate("builder_pairs", f"sparse: {len(new)} synapses created for a draw of {seam.binomial_returns[0]} connections", ci, where)
                if call["p"] == 0.0 and call.get("force_binomial") is None and len(new):
                    w.violate("builder_pairs", "sparse: p=0 created synapses", ci, where)
            for a in pre_c:
                if a != first_comp[cell_of[a]]:
                    w.violate("builder_sites", f"{fn}: presynaptic site {a} is not the first compartment ({first_comp[cell_of[a]]}) of cell {cell_of[a]}", ci, where)
                    break
        # type, defaults, bookkeeping
        if len(new):
            if set(new["type"].tolist()) != {desc["name"]}:
                w.violate("builder_pairs", f"{fn}: new edges have types {set(new['type'].tolist())}, expected {desc['name']}", ci, where)
            for k, v in list(desc["params"].items()) + list(desc["states"].items()):
                got = new[k].tolist() if k in new.columns else None
                if got is None or any(not (g == v) for g in got):
                    w.violate("builder_pairs", f"{fn}: default {k}={v} not on the new edges ({got})", ci, where)
            if new["global_edge_index"].tolist() != list(range(n_before, n_before + len(new))):
                w.violate("builder_pairs", f"{fn}: global_edge_index of new edges {new['global_edge_index'].tolist()}", ci, where)
        inv = structural_invariants(m)
        if inv:
            w.violate("structural_invariant", "; ".join(inv[:4]), ci, where)
        types = tuple(sorted((t, int((ed["type"] == t).sum())) for t in set(ed["type"].tolist()))) if len(ed) else ()
        states.add(snap.digest([program["shape"]["cells"], types])[:16])
        w.chain.add("call", {"call": call, "edges": snap.digest(after["edges"])})
        if w.violations:
            break
    return {
        "violations": w.violations,
        "stats": w.stats,
        "digest": w.chain.h,
        "events": len(w.chain.events),
        "sim_time_ms": 0.0,
        "integrate_calls": 0,
        "abstract_states": sorted(states),
        "transitions": sorted(set(f"{s}:{c['fn']}" for s in states for c in program["calls"]))[:64],
        "nontrivial": sim["builder_calls"] > 0 and sim["edges_created"] > 0,
        "stopped": w.stopped,
    }


def _matrix(call, a, b):
    kind = call["matrix"]
    r = stream(call["mseed"], "matrix")
    M = np.zeros((a, b), dtype=bool)
    if kind == "all_true":
        M[:] = True
    elif kind == "single":
        M[r.randrange(a), r.randrange(b)] = True
    elif kind == "row":
        M[r.randrange(a), :] = True
    elif kind == "col":
        M[:, r.randrange(b)] = True
    elif kind == "random":
        for i in range(a):
            for j in range(b):
                M[i, j] = r.random() < 0.4
    return M


def simplify(program):
    """Scenario-specific simplification candidates (beyond list-element removal and shape shrinking)."""
    for i, c in enumerate(program["calls"]):
        for field in ("force_choice", "force_binomial"):
            if c.get(field) is not None and not (field == "force_binomial"):
                q = copy.deepcopy(program)
                q["calls"][i][field] = None
                yield q
        if c.get("name"):
            q = copy.deepcopy(program)
            q["calls"][i]["name"] = None
            yield q
        for side in ("pre", "post"):
            if isinstance(c[side], dict) and c[side]["t"] == "list" and len(c[side]["v"]) > 1:
                for drop in range(len(c[side]["v"])):
                    q = copy.deepcopy(program)
                    q["calls"][i][side]["v"] = c[side]["v"][:drop] + c[side]["v"][drop + 1:]
                    yield q


KNOWN_SIGNATURES = {}
