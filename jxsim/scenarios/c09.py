"""C09 — synaptic current flows from the listed pre- to the listed post-compartment.

Workload: networks of 2-4 cells; a random multiset of <= 8 (pre, post, type) edges including autapses, fan-in onto
one compartment, interleaved IonotropicSynapse / TestSynapse / TanhRateSynapse and renamed instances; per-edge
parameters set through select(edges=...), net.<Syn>.edge(i), net.<Syn> and whole-net views.  Each edge (with its own
parameter assignments) is one set-up task; the scheduler draws the creation order (fault kind `reorder`), including
orders that change the order of first appearance of the types.
Faults: reorder, persist mid-wiring, reject (connect across two networks), knob (solver x backend).
Oracles: creation_order_invariant, zero_conductance_isolated (each cell equals the same cell simulated alone),
refsim_equal (RefSim reads pre/post with its own code, converts with the post area, sums per post compartment),
edge_param_confined (RefModule conformance after every assignment)."""
import copy

from .. import env

env.setup()
import numpy as np  # noqa: E402
import jaxley as jx  # noqa: E402
from jaxley.connect import connect as jx_connect  # noqa: E402

from .. import faults, mech, refsim, simrun, snap, twin  # noqa: E402
from ..driver import HarnessError, World, exc_in_harness, exc_text, is_backend_refusal, quiet, ref_from_module  # noqa: E402
from ..ops import apply_op  # noqa: E402
from ..program import DTS, DryWorld, abstract_state, gen_node_view, gen_op, init_value_ops  # noqa: E402
from ..refmodule import RefModule  # noqa: E402
from ..runops import TOL_REF, TOL_SAME  # noqa: E402
from ..seedtree import stream  # noqa: E402
from ..shapes import gen_network_shape  # noqa: E402

PROPERTY = "C09"
LEVEL = "exploration"
RUNS = {"quick": 96, "thorough": 3000}
WALL = {"quick": 1500, "thorough": 6 * 3600}
LIST_FIELDS = ["ops", "tasks", "bulk", "late"]
STUBS = ["pickle buffer / deepcopy (persist fault)", "borrowed synapse / channel kinetics inside RefSim"]
ASSUMPTIONS = ["RefSim scheme assumptions as in C19; tolerance 1e-6 mV vs RefSim, 1e-9 between jaxley executions",
               "'simulated alone' = a fresh Cell built from the cell's displayed rows (canonical twin), same solver and backend"]
G_KEYS = ("_gS", "_gC")


def generate(seed, tier="quick"):
    r = stream(seed, "shape")
    shape = gen_network_shape(r, r.randint(2, 4), 3, 3, same_layout=r.random() < 0.6)
    o = stream(seed, "ops")
    L = o.randint(4, 14)
    cfg = {"L": L, "channels": o.sample(mech.CHANNELS, o.randint(1, 3)), "synapses": mech.SYNAPSES, "max_edges": 0}
    dw = DryWorld(shape)
    ops = []
    for op in init_value_ops(o, dw.ref):
        dw.dry_apply(op)
        ops.append(op)
    sw = {"insert": 3, "set": 1, "stimulate": 3, "clamp": 1}
    if o.random() < 0.3:
        sw.pop("insert")
    for _ in range(o.randint(2, 8)):
        op = gen_op(o, dw, sw, cfg)
        if op is not None and op["op"] == "clamp" and op["state"] != "v":
            continue
        if op is not None and dw.dry_apply(op) == "accept":
            ops.append(op)
    n = dw.ref.n
    pool = [("IonotropicSynapse", None), ("TestSynapse", None), ("TanhRateSynapse", None), ("IonotropicSynapse", "IonoB"), ("TestSynapse", "TestB"),
            ("IonotropicSynapse", "exc_syn"), ("TanhRateSynapse", "rate_fast_b")]  # names with underscores: keys are "<name>_<param>"
    pool = o.sample(pool, o.randint(1, 4))
    tasks = []
    hot = o.randrange(n)  # fan-in target
    for _ in range(o.randint(1, 8)):
        cls, name = o.choice(pool)
        pre = o.randrange(n)
        post = hot if o.random() < 0.3 else (pre if o.random() < 0.1 else o.randrange(n))
        t = [{"op": "connect", "pre": pre, "post": post, "cls": cls, "name": name}]
        desc = mech.syn_desc(cls, name)
        for col in list(desc["params"]) + list(desc["states"]):
            if o.random() < 0.7:
                form = o.choice(["select", "typed"])
                view = [["select_edges", {"t": "int", "v": -1}]] if form == "select" else [["syn", desc["name"]], ["edge", {"t": "int", "v": -1}]]
                t.append({"op": "set", "view": view, "key": col, "val": {"seed": o.randrange(1 << 30)}})
        tasks.append(t)
    # state-aware part ends here: bulk assignments are applied after wiring, in both orders
    for t in tasks:
        for op in t:
            dw.dry_apply(op)
    bulk = []
    for _ in range(o.randint(0, 4)):
        if not dw.ref.syns:
            break
        s_ = o.choice(dw.ref.syns)
        col = o.choice(list(s_["params"]) + list(s_["states"]))
        view = o.choice([[["syn", s_["name"]]], [], [["syn", s_["name"]], ["edge", "all"]]])
        op = {"op": "set", "view": view, "key": col, "val": {"seed": o.randrange(1 << 30)}}
        if dw.dry_apply(op) == "accept":
            bulk.append(op)
    # assignments that address synapses by their global edge index (legitimately creation-order dependent): applied to
    # the canonical wiring only, after the order comparison; array values through an *unsorted* edge selection
    late = []
    for _ in range(o.randint(0, 2)):
        if not dw.ref.syns:
            break
        s_ = o.choice(dw.ref.syns)
        col = o.choice(list(s_["params"]) + list(s_["states"]))
        op = {"op": "set", "view": [["select_edges", {"t": "ulist", "v": [o.randrange(64) for _ in range(o.randint(2, 4))]}]], "key": col,
              "val": {"seed": o.randrange(1 << 30), "array": o.random() < 0.7}}
        if dw.dry_apply(op) == "accept":
            late.append(op)
    order = list(range(len(tasks)))
    o.shuffle(order)
    return {"prop": PROPERTY, "shape": shape, "ops": ops, "tasks": tasks, "bulk": bulk, "late": late, "order": order,
            "steps": None if ("i" in dw.ref.externals or dw.ref.externals) and o.random() < 0.5 else o.randint(3, 16), "L": L,
            "dt": o.choice(DTS), "solver": o.choice(["bwd_euler", "bwd_euler", "crank_nicolson"]),
            "vsolver": o.choice(["jaxley.stone", "jaxley.thomas", "jax.sparse"]), "mode": o.choice(["eager", "eager", "jit"]),
            "persist_after": o.choice([None, None, o.randrange(8)]), "persist_how": o.choice(["pickle", "deepcopy"]),
            "zero_g": o.random() < 0.4, "reject_cross": o.random() < 0.3}


def build(program, order, persist=True):
    w = World(program["shape"])
    w.sim_ms = 0.0
    i = -1
    for i, op in enumerate(program["ops"]):
        if w.stopped or w.violations:
            return w
        apply_op(w, op, i)
    for pos, k in enumerate(order):
        if k >= len(program["tasks"]):
            continue
        for op in program["tasks"][k]:
            if w.stopped or w.violations:
                return w
            i += 1
            before = len(w.violations)
            apply_op(w, op, i)
            for v in w.violations[before:]:
                if v["oracle"] == "tables_conform" and op["op"] == "set":
                    v["oracle"] = "edge_param_confined"
        if persist and program.get("persist_after") is not None and pos == program["persist_after"] % max(1, len(order)):
            try:
                m2 = faults.persist(w.m, program["persist_how"])
            except faults.PersistFailed as e_:
                w.violate("copy_equal", str(e_), i)
                return w
            a, b = snap.snapshot(w.m), snap.snapshot(m2)
            if a != b:
                w.violate("copy_equal", "copy mid-wiring differs: " + "; ".join(snap.diff(a, b)[:3]), i)
            w.m = m2
            w.bump("fault_persist_" + program["persist_how"])
    for op in program["bulk"]:
        if w.stopped or w.violations:
            return w
        i += 1
        before = len(w.violations)
        apply_op(w, op, i)
        for v in w.violations[before:]:
            if v["oracle"] == "tables_conform":
                v["oracle"] = "edge_param_confined"
    with quiet():
        w.m.delete_recordings()
        w.m.record("v", verbose=False)
    w.ref.recordings = [[c, "v"] for c in range(w.ref.n)]
    return w


def steps_of(ref, program):
    if program["steps"] is not None:
        for k, lst in ref.externals.items():
            if k != "i" and lst and len(lst[0][1]) < program["steps"]:
                return len(lst[0][1]), len(lst[0][1])
        return program["steps"], program["steps"]
    if ref.externals:
        return None, len(next(iter(ref.externals.values()))[0][1])
    return 5, 5


def integ(w, m, program, steps_arg):
    kw = dict(steps=steps_arg, dt=program["dt"], solver=program["solver"], vsolver=program["vsolver"], mode=program["mode"])
    try:
        out = simrun.integrate(m, **kw)
    except Exception as e:  # noqa: BLE001
        if exc_in_harness(e):
            raise HarnessError(f"{type(e).__name__}: {e}") from e
        if is_backend_refusal(e) and kw["vsolver"] != "jax.sparse":
            w.bump("probe_backend_refusal")
            program["vsolver"] = "jax.sparse"
            kw["vsolver"] = "jax.sparse"
            out = simrun.integrate(m, **kw)
        else:
            raise
    w.bump("integrate_calls")
    return out


def subcell_ref(ref, ci):
    """RefModule of cell ci alone (rows, channels, stimuli / clamps on its compartments), no synapses."""
    rows = [i for i in range(ref.n) if ref.cell[i] == ci]
    off = rows[0]
    bs = sorted(set(ref.branch[i] for i in rows))
    boff = bs[0]
    sub = RefModule("cell", [{"parents": [-1 if ref.parents[b] == -1 else ref.parents[b] - boff for b in bs],
                              "ncomp": [ref.ncomp_per_branch[b] for b in bs]}])
    for col, vals in ref.cols.items():
        sub.cols[col] = [vals[i] for i in rows]
    for name, fl in ref.flags.items():
        if any(fl[i] for i in rows):
            sub.flags[name] = [fl[i] for i in rows]
            sub.chans[name] = copy.deepcopy(ref.chans[name])
            if ref.chans[name]["current"] not in sub.currents:
                sub.currents.append(ref.chans[name]["current"])
    used = set()
    for c in sub.chans.values():
        used |= set(c["params"]) | set(c["states"])
    for col in list(sub.cols):
        if col not in used and col not in ("radius", "length", "axial_resistivity", "capacitance", "v"):
            del sub.cols[col]
    for k, lst in ref.externals.items():
        keep = [[t - off, a] for t, a in lst if t in rows]
        if keep:
            sub.externals[k] = keep
    sub.recordings = [[i - off, "v"] for i in rows]
    return sub, rows


def execute(program):
    program = copy.deepcopy(program)
    nt = len(program["tasks"])
    canonical = list(range(nt))
    w = build(program, canonical)
    nidx = len(program["ops"]) + sum(len(t) for t in program["tasks"]) + len(program["bulk"])
    states = [snap.digest(abstract_state(w.ref))[:12]]

    def res():
        faults_ = sum(v for k, v in w.stats.items() if k.startswith("fault_"))
        return {"violations": w.violations, "stats": w.stats, "digest": w.chain.h, "events": len(w.chain.events), "sim_time_ms": w.sim_ms,
                "integrate_calls": w.stats.get("integrate_calls", 0), "abstract_states": states,
                "transitions": sorted(set(f"{states[0]}:{t[0]['cls']}" for t in program["tasks"])),
                "nontrivial": w.stats.get("oracle_refsim", 0) > 0 and faults_ > 0 and bool(w.ref.edges), "stopped": w.stopped}

    if w.stopped or w.violations:
        return res()
    ref = w.ref
    steps_arg, steps = steps_of(ref, program)
    dt = program["dt"]
    types = []
    for e in ref.edges:
        if e["type"] not in types:
            types.append(e["type"])
    if len(types) > 1:
        w.bump("probe_interleaved_syn_types")
    if any(e["pre"] == e["post"] for e in ref.edges):
        w.bump("probe_autapse")
    posts = [e["post"] for e in ref.edges]
    if len(set(posts)) < len(posts):
        w.bump("probe_fan_in")
    try:
        out = integ(w, w.m, program, steps_arg)
    except HarnessError:
        raise
    except Exception as e:  # noqa: BLE001
        w.violate("unexpected_refusal", f"integrate raised {exc_text(e)} on an accepted wiring", nidx)
        return res()
    w.sim_ms += steps * dt
    if out.shape != (ref.n, steps + 1):
        w.violate("row_shape", f"shape {out.shape}, expected {(ref.n, steps + 1)}", nidx)
        return res()
    w.bump("fault_knob_%s_%s" % (program["solver"], program["vsolver"]))
    # (iii) RefSim from the displayed tables
    try:
        expect, _ = refsim.RefSim(ref_from_module(w.m), program["solver"]).run(steps, dt)
    except Exception as e:  # noqa: BLE001
        raise HarnessError(f"RefSim failed: {type(e).__name__}: {e}") from e
    w.bump("oracle_refsim")
    if not simrun.close(out, expect, **TOL_REF):
        d = np.abs(out - expect).max(axis=1)
        j = int(np.nanargmax(d))
        w.violate("refsim_equal", f"compartment {j} differs from the reference simulation of the displayed wiring by {d[j]:.3e} "
                  f"(edges {[(e['pre'], e['post'], e['type']) for e in ref.edges][:8]})", nidx)
        return res()
    w.chain.add("canonical", {"out": snap.arrays_digest(out), "edges": [(e["pre"], e["post"], e["type"]) for e in ref.edges]})
    # (i) creation-order independence
    order = [k for k in program["order"] if k < nt] + [k for k in canonical if k not in program["order"]]
    if order != canonical:
        w2 = build(program, order, persist=False)
        w.bump("fault_reorder")
        if w2.violations:
            w.violations.extend(w2.violations)
            return res()
        if not w2.stopped:
            t2 = []
            for e in w2.ref.edges:
                if e["type"] not in t2:
                    t2.append(e["type"])
            if t2 != types:
                w.bump("probe_type_first_appearance_changed")
            try:
                out2 = integ(w, w2.m, program, steps_arg)
            except HarnessError:
                raise
            except Exception as e:  # noqa: BLE001
                w.violate("creation_order_invariant", f"creation order {order} raised {exc_text(e)}; the canonical order simulated", nidx)
                return res()
            w.bump("oracle_order")
            if not simrun.close(out, out2, **TOL_SAME):
                w.violate("creation_order_invariant", f"creation order {order} changes the result by {simrun.maxdiff(out, out2):.3e}", nidx)
                return res()
    # assignments by global edge index on the canonical wiring, then the reference simulator once more
    if program.get("late") and ref.edges:
        j_ = nidx
        for op in program["late"]:
            before_v = len(w.violations)
            apply_op(w, op, j_)
            j_ += 1
            for v in w.violations[before_v:]:
                if v["oracle"] == "tables_conform":
                    v["oracle"] = "edge_param_confined"
        if w.violations or w.stopped:
            return res()
        try:
            out = integ(w, w.m, program, steps_arg)
            expect, _ = refsim.RefSim(ref_from_module(w.m), program["solver"]).run(steps, dt)
        except HarnessError:
            raise
        except Exception as e:  # noqa: BLE001
            if exc_in_harness(e):
                raise HarnessError(f"{type(e).__name__}: {e}") from e
            w.violate("unexpected_refusal", f"integrate raised {exc_text(e)} after edge-view assignments", nidx)
            return res()
        w.bump("oracle_refsim")
        if not simrun.close(out, expect, **TOL_REF):
            w.violate("refsim_equal", f"after assignments through an unsorted edge selection the simulation differs from the reference simulation of the displayed tables by {simrun.maxdiff(out, expect):.3e}", nidx)
            return res()
    # the first network is simulated again after another network was built and simulated in the same process:
    # nothing of the other one may be used (bit-identical repeat)
    try:
        out_again = integ(w, w.m, program, steps_arg)
    except HarnessError:
        raise
    except Exception as e:  # noqa: BLE001
        w.violate("creation_order_invariant", f"simulating the network again after another network was built raised {exc_text(e)}", nidx)
        return res()
    w.bump("oracle_repeat_after_other_network")
    if not np.array_equal(out, out_again, equal_nan=True):
        w.violate("creation_order_invariant", f"simulating the same network again, after another network was built and simulated, changes the result by {simrun.maxdiff(out, out_again):.3e}", nidx,
                  {"repeat_after_other_network": True})
        return res()
    # (ii) zero conductance => every cell as if simulated alone
    if program.get("zero_g") and ref.edges:
        i = nidx
        for s_ in list(ref.syns):
            for col in s_["params"]:
                if col.endswith(G_KEYS):
                    apply_op(w, {"op": "set", "view": [["syn", s_["name"]]], "key": col, "val": 0.0}, i)
                    i += 1
        if w.violations:
            return res()
        try:
            out0 = integ(w, w.m, program, steps_arg)
        except HarnessError:
            raise
        except Exception as e:  # noqa: BLE001
            w.violate("zero_conductance_isolated", f"integrate with zero conductances raised {exc_text(e)}", nidx)
            return res()
        for ci in sorted(set(ref.cell)):
            sub, rows = subcell_ref(w.ref, ci)
            try:
                cm = twin.twin_from_ref(sub)
                alone = integ(w, cm, dict(program), steps_arg)
            except twin.TwinUnbuildable:
                continue
            except HarnessError:
                raise
            except Exception as e:  # noqa: BLE001
                if exc_in_harness(e):
                    raise HarnessError(f"subcell: {type(e).__name__}: {e}") from e
                continue  # a backend may refuse the single cell; nothing to compare then
            w.bump("oracle_isolated")
            if not simrun.close(out0[rows], alone, **TOL_SAME):
                w.violate("zero_conductance_isolated", f"with all synaptic conductances 0, cell {ci} differs from the same cell simulated alone by {simrun.maxdiff(out0[rows], alone):.3e}", nidx)
                return res()
    # reject: connect across two networks must raise and change nothing
    if program.get("reject_cross"):
        other = World(program["shape"])
        before = snap.snapshot(w.m, with_xyzr=False)
        try:
            with quiet():
                jx_connect(w.m.select(nodes=[0]), other.m.select(nodes=[0]), mech.make_synapse("IonotropicSynapse"))
            w.bump("reject_not_raised")
        except Exception as e:  # noqa: BLE001
            if exc_in_harness(e):
                raise HarnessError(str(e)) from e
            w.bump("fault_reject")
            if snap.snapshot(w.m, with_xyzr=False) != before:
                w.bump("non_atomic_reject")
    return res()


def simplify(program):
    for field, simple in (("solver", "bwd_euler"), ("dt", 0.025), ("mode", "eager"), ("vsolver", "jax.sparse"), ("zero_g", False),
                          ("persist_after", None), ("reject_cross", False)):
        if program.get(field) != simple:
            q = copy.deepcopy(program)
            q[field] = simple
            yield q
    if program["order"] != sorted(program["order"]):
        q = copy.deepcopy(program)
        q["order"] = sorted(program["order"])
        yield q
    for i, t in enumerate(program["tasks"]):
        for j in range(1, len(t)):
            q = copy.deepcopy(program)
            del q["tasks"][i][j]
            yield q
        if t[0].get("name"):
            q = copy.deepcopy(program)
            q["tasks"][i][0]["name"] = None
            yield q
    for i, op in enumerate(program["ops"]):
        if op.get("view"):
            for j in range(len(op["view"])):
                q = copy.deepcopy(program)
                del q["ops"][i]["view"][j]
                yield q
