"""Structural invariants of a jaxley module's public tables (C19 'mutually consistent'), read from the
module alone — independent of RefModule."""
import numpy as np


def _isna(x):
    try:
        return x is None or bool(x != x)
    except Exception:
        return False


def structural_invariants(m):
    out = []
    nd = m.nodes
    n = len(nd)
    if list(nd.index) != list(range(n)):
        out.append("node labels are not 0..n-1")
    gc = nd["global_comp_index"].tolist()
    if gc != list(range(n)):
        out.append(f"global_comp_index not contiguous: {gc[:10]}")
    gb = nd["global_branch_index"].tolist()
    gcell = nd["global_cell_index"].tolist()
    if any(b1 < b0 or b1 > b0 + 1 for b0, b1 in zip(gb, gb[1:])) or (gb and gb[0] != 0):
        out.append(f"global_branch_index not ordered/contiguous: {gb}")
    if any(c1 < c0 or c1 > c0 + 1 for c0, c1 in zip(gcell, gcell[1:])) or (gcell and gcell[0] != 0):
        out.append(f"global_cell_index not ordered/contiguous: {gcell}")
    kind = type(m).__name__.lower()
    if kind != "compartment":
        ncb = [int(x) for x in np.asarray(m.ncomp_per_branch).tolist()]
        counts = [gb.count(b) for b in range(len(ncb))]
        if counts != ncb:
            out.append(f"ncomp_per_branch {ncb} but rows per branch {counts}")
        cs = [int(x) for x in np.asarray(m.cumsum_ncomp).tolist()]
        if cs != [0] + list(np.cumsum(ncb).astype(int).tolist()):
            out.append(f"cumsum_ncomp {cs} inconsistent with ncomp_per_branch {ncb}")
        if len(np.asarray(m.comb_parents)) != len(ncb):
            out.append("comb_parents length != number of branches")
    names = [c._name for c in m.channels]
    if len(set(names)) != len(names):
        out.append(f"duplicate channel registry entries {names}")
    for ch in m.channels:
        nm = ch._name
        if nm not in nd.columns:
            out.append(f"registered channel {nm} has no flag column")
            continue
        flags = [False if _isna(x) else bool(x) for x in nd[nm].tolist()]
        for col in list(ch.channel_params) + list(ch.channel_states):
            if col not in nd.columns:
                out.append(f"column {col} of registered channel {nm} is missing")
                continue
            vals = nd[col].tolist()
            for i, (f, v) in enumerate(zip(flags, vals)):
                if f and _isna(v):
                    out.append(f"channel {nm} present in row {i} but {col} is NaN")
                    break
        if ch.current_name not in m.membrane_current_names:
            out.append(f"current name {ch.current_name} of registered channel {nm} not in membrane_current_names")
    # every non-base column must belong to a registered channel; a non-NaN value needs an owner present in that row
    base = {"radius", "length", "axial_resistivity", "capacitance", "v", "x", "y", "z", "controlled_by_param",
            "global_cell_index", "global_branch_index", "global_comp_index",
            "local_cell_index", "local_branch_index", "local_comp_index"}
    owners = {}
    for ch in m.channels:
        for col in list(ch.channel_params) + list(ch.channel_states):
            owners.setdefault(col, []).append(ch._name)
    for col in nd.columns:
        if col in base or col in names:
            continue
        if col not in owners:
            out.append(f"orphan column {col} (no registered channel uses it)")
            continue
        vals = nd[col].tolist()
        for i, v in enumerate(vals):
            if not _isna(v):
                present = any((not _isna(nd[o].iloc[i])) and bool(nd[o].iloc[i]) for o in owners[col])
                if not present:
                    out.append(f"column {col} has a value in row {i} where none of {owners[col]} is present")
                    break
    ed = m.edges
    ne = len(ed)
    if ne:
        if ed["global_edge_index"].tolist() != list(range(ne)):
            out.append("global_edge_index not contiguous")
        for col in ("pre_global_comp_index", "post_global_comp_index"):
            for v in ed[col].tolist():
                if _isna(v) or not (0 <= int(v) < n):
                    out.append(f"edge end {col}={v} does not exist")
                    break
        sn = list(m.synapse_names)
        for t, ti in zip(ed["type"].tolist(), ed["type_ind"].tolist()):
            if t not in sn or sn.index(t) != int(ti):
                out.append(f"edge type {t}/{ti} inconsistent with synapse_names {sn}")
                break
        for s in m.synapses:
            rows = [t == s._name for t in ed["type"].tolist()]
            for col in list(s.synapse_params) + list(s.synapse_states):
                if col not in ed.columns:
                    out.append(f"synapse column {col} missing")
                    continue
                for r, v in zip(rows, ed[col].tolist()):
                    if r and _isna(v):
                        out.append(f"synapse {s._name}: {col} NaN on one of its edges")
                        break
    rec = m.recordings
    if len(rec):
        cs, es = m._get_state_names()
        pairs = list(zip(rec["rec_index"].tolist(), rec["state"].tolist()))
        if len(set(pairs)) != len(pairs):
            out.append("duplicate recordings")
        for r, s in pairs:
            if s == "i":
                out.append(f"recording ({r},'i'): 'i' is the key of the stimulus, not a state integrate can read")
            if s in cs:
                if not (0 <= int(r) < n):
                    out.append(f"recording ({r},{s}) refers to a missing compartment")
            elif s in es:
                if not (0 <= int(r) < ne):
                    out.append(f"recording ({r},{s}) refers to a missing edge")
            else:
                out.append(f"dangling: recording of unknown state {s}")
    known_states = None
    for k in m.externals:
        if known_states is None:
            a, b = m._get_state_names()
            known_states = set(a) | set(b)
        if k not in known_states:
            out.append(f"dangling: input for unknown state {k}")
        inds = np.asarray(m.external_inds.get(k, [])).tolist()
        arr = np.asarray(m.externals[k])
        if arr.ndim != 2 or arr.shape[0] != len(inds):
            out.append(f"externals[{k}] shape {arr.shape} vs {len(inds)} indices")
        for i in inds:
            if not (0 <= int(i) < max(n, ne)):
                out.append(f"external {k} refers to missing row {i}")
    for g, members in m.groups.items():
        for i in np.asarray(members).tolist():
            if not (0 <= int(i) < n):
                out.append(f"group {g} refers to missing row {i}")
                break
    if len(m.trainable_params) != len(m.indices_set_by_trainables):
        out.append(f"{len(m.trainable_params)} trainable parameters but {len(m.indices_set_by_trainables)} index arrays")
    for p, inds in zip(m.trainable_params, m.indices_set_by_trainables):
        key = next(iter(p.keys()))
        if key not in nd.columns and key not in ed.columns:
            out.append(f"dangling: trainable of unknown key {key}")
            continue
        nv = int(np.asarray(next(iter(p.values()))).reshape(-1).shape[0])
        if np.asarray(inds).ndim != 2 or np.asarray(inds).shape[0] != nv:
            out.append(f"trainable {key}: {nv} values for an index array of shape {np.asarray(inds).shape}")
        limit = n if key in nd.columns else ne
        for i in np.asarray(inds).reshape(-1).tolist():
            if not (0 <= int(i) < limit):
                out.append(f"trainable {key} refers to row {i} outside 0..{limit - 1}")
                break
    return out
