"""RefSim — an independent dense NumPy simulator built from displayed tables (oracle 3).

Own code: areas, axial resistances, Kirchhoff branch-point nodes, dense assembly and solve, backward Euler /
Crank-Nicolson composition, stimulus timing and area conversion, synapse wiring (pre/post lookup, post-area
conversion, summation per post compartment), clamps, recording.
Borrowed (declared trusted stub): mechanism kinetics `update_states` / `compute_current` of jaxley's channel and
synapse classes, linearised by the same 1e-3 mV secant.  What the kinetics *are* is C03/C04 (not applicable).

Scheme assumptions (listed in every evidence file): gates are advanced with the voltage at the start of the step,
then the voltage is solved with the advanced gates; membrane currents enter through the 1e-3 mV secant; clamps of
non-voltage states are applied after the currents of that step were formed; voltage clamps after the solve."""
from math import pi

import numpy as np

from . import env

env.setup()
import jax  # noqa: E402
import jax.numpy as jnp  # noqa: E402

from . import mech  # noqa: E402
from .refmodule import isnan  # noqa: E402

PAD_NODES = 48
PAD_EDGES = 16
_jit_cache = {}


def _kin(kind, cls, name):
    key = (kind, cls, name)
    if key not in _jit_cache:
        if kind == "ch":
            obj = mech.make_channel(cls, name)
            upd = jax.jit(lambda st, dt, v, pr: obj.update_states(st, dt, v, pr))
            cur = jax.jit(lambda st, v, pr: obj.compute_current(st, v, pr))
        else:
            obj = mech.make_synapse(cls, name)
            upd = jax.jit(lambda st, dt, vpre, vpost, pr: obj.update_states(st, dt, vpre, vpost, pr))
            cur = jax.jit(lambda st, vpre, vpost, pr: obj.compute_current(st, vpre, vpost, pr))
        _jit_cache[key] = (obj, upd, cur)
    return _jit_cache[key]


def _pad(a, size, fill):
    a = np.asarray(a, dtype=float)
    if len(a) > size:
        size = len(a)
    out = np.full(size, fill, dtype=float)
    out[: len(a)] = a
    return out


class RefSim:
    def __init__(self, ref, solver="bwd_euler"):
        """ref: RefModule-shaped description read from the displayed tables (driver.ref_from_module)."""
        self.ref = ref
        self.n = ref.n
        self.solver = solver
        c = ref.cols
        self.r = np.asarray(c["radius"], float)
        self.l = np.asarray(c["length"], float)
        self.ra = np.asarray(c["axial_resistivity"], float)
        self.cm = np.asarray(c["capacitance"], float)
        self.area = 2 * pi * self.r * self.l  # um^2
        self._build_G()

    def _build_G(self):
        ref, n = self.ref, self.n
        par = list(ref.parents)
        nb = len(par)
        first = [None] * nb
        last = [None] * nb
        for i, b in enumerate(ref.branch):
            if first[b] is None:
                first[b] = i
            last[b] = i
        Rh = self.ra * (self.l / 2) / (pi * self.r**2)  # half-compartment axial resistance, 1e4 ohm
        bps = sorted(set(int(p) for p in par if p >= 0))
        N = n + len(bps)
        G = np.zeros((N, N))

        def add(a, b, g):
            G[a, a] += g
            G[b, b] += g
            G[a, b] -= g
            G[b, a] -= g

        for i in range(n - 1):
            if ref.branch[i] == ref.branch[i + 1]:
                add(i, i + 1, 1 / (Rh[i] + Rh[i + 1]))
        for k, p in enumerate(bps):
            add(last[p], n + k, 1 / Rh[last[p]])
            for ch in [b for b in range(nb) if par[b] == p]:
                add(first[ch], n + k, 1 / Rh[first[ch]])
        self.G = G * 1e-4  # S
        self.nbp = len(bps)
        self.C = np.concatenate([self.cm * self.area * 1e-8, np.zeros(self.nbp)])  # uF

    def run(self, nsteps, dt, recordings=None, externals=None, v0=None, overrides=None):
        """Returns (matrix rows per recording x (nsteps+1), dict of final states).

        recordings: list of [index, state] (default ref.recordings)
        externals:  dict key -> list of [row, samples] (default ref.externals); stimulus beyond its length is 0
        overrides:  {"nodes": {col: {row: value}}, "edges": {col: {edge: value}}} applied on top of the tables
        """
        ref, n = self.ref, self.n
        recordings = ref.recordings if recordings is None else recordings
        externals = ref.externals if externals is None else externals
        cols = {k: np.array([np.nan if isnan(x) else float(x) for x in v]) for k, v in ref.cols.items()}
        evals = {}
        for col in ref.edge_columns():
            evals[col] = np.array([np.nan if isnan(e["vals"].get(col)) else float(e["vals"][col]) for e in ref.edges])
        if overrides:
            for col, d in overrides.get("nodes", {}).items():
                for r_, x in d.items():
                    cols[col][int(r_)] = x
            for col, d in overrides.get("edges", {}).items():
                for r_, x in d.items():
                    evals[col][int(r_)] = x
            # geometry may have been overridden
            self.r, self.l, self.ra, self.cm = cols["radius"], cols["length"], cols["axial_resistivity"], cols["capacitance"]
            self.area = 2 * pi * self.r * self.l
            self._build_G()
        v = cols["v"].copy() if v0 is None else np.asarray(v0, float).copy()
        st = {}  # state name -> array over nodes (channel states, currents) or over edges (global edge order)
        for name, c in ref.chans.items():
            for s in c["states"]:
                st[s] = cols[s].copy()
        for cur in ref.currents:
            st[cur] = np.zeros(n)
        for s in ref.syns:
            for k in s["states"]:
                st[k] = evals[k].copy()
            st[f"i_{s['name']}"] = np.full(len(ref.edges), np.nan)
        A = self.area
        Acm2 = np.concatenate([A * 1e-8, np.zeros(self.nbp)])

        def channel_currents(vv, update, h):
            gv = np.zeros(n)
            ic = np.zeros(n)
            curr = {cur: np.zeros(n) for cur in ref.currents}
            if update:
                for name, c in ref.chans.items():
                    rows = np.array([i for i in range(n) if ref.flags[name][i]], dtype=int)
                    if not len(rows):
                        continue
                    obj, upd, _ = _kin("ch", c["cls"], name)
                    P = self._chan_params(c, cols, rows)
                    S = {s: jnp.asarray(_pad(st[s][rows], PAD_NODES, 0.5)) for s in c["states"]}
                    for cur in ref.currents:
                        S[cur] = jnp.asarray(_pad(st[cur][rows], PAD_NODES, 0.0))
                    new = upd(S, h, jnp.asarray(_pad(vv[rows], PAD_NODES, -65.0)), P)
                    for s, val in new.items():
                        st[s][rows] = np.asarray(val)[: len(rows)]
            for name, c in ref.chans.items():
                rows = np.array([i for i in range(n) if ref.flags[name][i]], dtype=int)
                if not len(rows):
                    continue
                obj, _, cur = _kin("ch", c["cls"], name)
                P = self._chan_params(c, cols, rows)
                S = {s: jnp.asarray(_pad(st[s][rows], PAD_NODES, 0.5)) for s in c["states"]}
                vp = _pad(vv[rows], PAD_NODES, -65.0)
                I0 = np.asarray(cur(S, jnp.asarray(vp), P))[: len(rows)]
                I1 = np.asarray(cur(S, jnp.asarray(vp + 1e-3), P))[: len(rows)]
                sl = (I1 - I0) / 1e-3
                gv[rows] += sl * 1000.0
                ic[rows] += (I0 - sl * vv[rows]) * 1000.0
                curr[c["current"]][rows] += I0
            for cur_name in ref.currents:
                st[cur_name] = curr[cur_name]
            return gv, ic

        def synapse_currents(vv, update, h):
            gv = np.zeros(n)
            ic = np.zeros(n)
            for s in ref.syns:
                ids = np.array([e for e, ed in enumerate(ref.edges) if ed["type"] == s["name"]], dtype=int)
                if not len(ids):
                    continue
                pre = np.array([ref.edges[e]["pre"] for e in ids])
                post = np.array([ref.edges[e]["post"] for e in ids])
                obj, upd, cur = _kin("syn", s["cls"], s["name"])
                P = {k: jnp.asarray(_pad(evals[k][ids], PAD_EDGES, float(d))) for k, d in s["params"].items()}
                S = {k: jnp.asarray(_pad(st[k][ids], PAD_EDGES, 0.5)) for k in s["states"]}
                vpre = _pad(vv[pre], PAD_EDGES, -65.0)
                vpost = _pad(vv[post], PAD_EDGES, -65.0)
                if update:
                    new = upd(S, h, jnp.asarray(vpre), jnp.asarray(vpost), P)
                    for k, val in new.items():
                        st[k][ids] = np.asarray(val)[: len(ids)]
                    S = {k: jnp.asarray(_pad(st[k][ids], PAD_EDGES, 0.5)) for k in s["states"]}
                I0 = np.broadcast_to(np.asarray(cur(S, jnp.asarray(vpre), jnp.asarray(vpost), P)), (len(vpre),))[: len(ids)]
                I1 = np.broadcast_to(np.asarray(cur(S, jnp.asarray(vpre + 1e-3), jnp.asarray(vpost + 1e-3), P)), (len(vpre),))[: len(ids)]
                d0 = I0 / A[post] * 1e5  # nA / um^2 -> uA / cm^2, with the POST compartment's area
                d1 = I1 / A[post] * 1e5
                sl = (d1 - d0) / 1e-3
                np.add.at(gv, post, sl)
                np.add.at(ic, post, d0 - sl * vv[post])
                st[f"i_{s['name']}"][ids] = I0
            return gv, ic

        def observe():
            row = []
            for idx, state in recordings:
                if state == "v":
                    row.append(v[idx])
                else:
                    row.append(st[state][idx])
            return row

        # initial currents (no state update)
        channel_currents(v, False, dt)
        synapse_currents(v, False, dt)
        out = [observe()]
        for k in range(nsteps):
            iext = np.zeros(n)
            for c_, arr in externals.get("i", []):
                if k < len(arr):
                    iext[c_] += arr[k] / A[c_] * 1e5
            gv1, ic1 = channel_currents(v, True, dt)
            gv2, ic2 = synapse_currents(v, True, dt)
            gv = gv1 + gv2
            ic = ic1 + ic2
            for key, lst in externals.items():
                if key in ("i", "v"):
                    continue
                for row_, arr in lst:
                    st[key][row_] = arr[k]
            gvf = np.concatenate([gv, np.zeros(self.nbp)])
            icf = np.concatenate([ic, np.zeros(self.nbp)])
            ief = np.concatenate([iext, np.zeros(self.nbp)])
            vf = np.concatenate([v, np.zeros(self.nbp)])

            def implicit(h):
                M = np.diag(self.C) + h * (self.G * 1e3 + np.diag(Acm2 * gvf))
                rhs = self.C * vf + h * Acm2 * (ief - icf)
                return np.linalg.solve(M, rhs)[:n]

            if self.solver == "bwd_euler":
                v = implicit(dt)
            elif self.solver == "crank_nicolson":
                v = 2 * implicit(dt / 2) - v
            else:
                raise ValueError(self.solver)
            for row_, arr in externals.get("v", []):
                v[row_] = arr[k]
            out.append(observe())
        final = {"v": v.copy()}
        final.update({k: a.copy() for k, a in st.items()})
        return np.asarray(out, dtype=float).T.reshape(len(recordings), nsteps + 1), final

    @staticmethod
    def _chan_params(c, cols, rows):
        P = {p: jnp.asarray(_pad(cols[p][rows], PAD_NODES, float(d))) for p, d in c["params"].items()}
        for p, d in (("radius", 1.0), ("length", 10.0), ("axial_resistivity", 5000.0), ("capacitance", 1.0)):
            P[p] = jnp.asarray(_pad(cols[p][rows], PAD_NODES, d))
        return P
