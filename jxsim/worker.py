"""Worker process: executes run indices w, w+W, ... of one batch and writes one JSON line per run.

usage: python -m jxsim.worker <prop> <tier> <batch_seed> <w> <W> <nruns> <outfile> [deadline_s]
Also: python -m jxsim.worker --exec <prop> <program.json> <out.json>   (execute one program; used by replay/shrink)"""
import faulthandler
import importlib
import json
import os
import sys
import time
import traceback


def load(prop):
    return importlib.import_module(f"jxsim.scenarios.{prop.lower()}")


def _release_compiled_code():
    """Every XLA executable maps memory regions; a long-lived worker that compiles thousands of small per-shape kernels
    reaches the kernel's vm.max_map_count (65530) and LLVM then fails with 'Cannot allocate memory'.  Dropping JAX's
    in-memory caches releases them (the persistent on-disk cache keeps recompilation cheap).  No effect on results."""
    try:
        with open("/proc/self/maps") as f:
            n = sum(1 for _ in f)
        if n > 25000:
            import jax

            jax.clear_caches()
    except Exception:  # noqa: BLE001
        pass


def run_one(sc, program):
    from jxsim.driver import HarnessError

    _release_compiled_code()
    t0 = time.time()
    try:
        res = sc.execute(program)
        res["harness_error"] = None
    except HarnessError as e:
        res = {"violations": [], "stats": {}, "digest": None, "events": 0, "harness_error": f"{e}\n{traceback.format_exc()[-1500:]}"}
    except Exception as e:  # noqa: BLE001  any exception escaping a scenario is a harness error, never a violation
        res = {"violations": [], "stats": {}, "digest": None, "events": 0,
               "harness_error": f"{type(e).__name__}: {e}\n{traceback.format_exc()[-2500:]}"}
    res["wall_s"] = round(time.time() - t0, 3)
    return res


def main(argv):
    from jxsim import env

    env.setup()
    from jxsim.seedtree import run_seed

    if argv[0] == "--serve":
        # persistent executor for the shrinker: one JSON program per stdin line -> one JSON result per stdout line
        sc = load(argv[1])
        out = os.fdopen(os.dup(1), "w")
        devnull = os.open(os.devnull, os.O_WRONLY)
        os.dup2(devnull, 1)  # anything jaxley prints must not corrupt the protocol
        out.write(json.dumps({"ready": True}) + "\n")
        out.flush()
        for line in sys.stdin:
            line = line.strip()
            if not line:
                continue
            program = json.loads(line)
            faulthandler.dump_traceback_later(int(os.environ.get("JXSIM_RUN_TIMEOUT", "600")), exit=True)
            res = run_one(sc, program)
            faulthandler.cancel_dump_traceback_later()
            res.pop("abstract_states", None)
            res.pop("transitions", None)
            out.write(json.dumps(res, default=str) + "\n")
            out.flush()
        return 0
    if argv[0] == "--exec":
        prop, pfile, out = argv[1:4]
        sc = load(prop)
        faulthandler.dump_traceback_later(int(os.environ.get("JXSIM_RUN_TIMEOUT", "600")), exit=True)
        program = json.load(open(pfile))
        res = run_one(sc, program)
        json.dump(res, open(out, "w"))
        return 0
    prop, tier, batch_seed, w, W, nruns, outfile = argv[:7]
    batch_seed, w, W, nruns = int(batch_seed), int(w), int(W), int(nruns)
    deadline = time.time() + float(argv[7]) if len(argv) > 7 else None
    sc = load(prop)
    per_run_timeout = int(os.environ.get("JXSIM_RUN_TIMEOUT", "600"))
    with open(outfile, "w") as f:
        for i in range(w, nruns, W):
            if deadline is not None and time.time() > deadline:
                f.write(json.dumps({"i": i, "skipped": "deadline"}) + "\n")
                f.flush()
                continue
            seed = run_seed(batch_seed, prop, i)
            faulthandler.dump_traceback_later(per_run_timeout, exit=True)
            t0 = time.time()
            try:
                program = sc.generate(seed, tier)
                gen_err = None
            except Exception as e:  # noqa: BLE001
                program = None
                gen_err = f"generate: {type(e).__name__}: {e}\n{traceback.format_exc()[-1500:]}"
            if program is None:
                res = {"violations": [], "stats": {}, "digest": None, "harness_error": gen_err, "wall_s": 0}
            else:
                res = run_one(sc, program)
            faulthandler.cancel_dump_traceback_later()
            rec = {"i": i, "seed": seed, "res": res}
            if res.get("violations") or res.get("harness_error") or i < 3 * W and (i // W) == 0:
                rec["program"] = program
            f.write(json.dumps(rec, default=str) + "\n")
            f.flush()
        f.write(json.dumps({"done": True, "w": w}) + "\n")
    return 0


if __name__ == "__main__":
    sys.exit(main(sys.argv[1:]))
