"""Driver: executes program operations against real jaxley and RefModule in lock-step.

`World` owns one jaxley module `m` and its reference model `ref`.  `World.apply(op)` returns an outcome
record; violations are appended to `World.violations` (oracle name + message + op index)."""
import contextlib
import copy
import io
import json
import math
import pickle
import traceback

from . import env

env.setup()
import jax  # noqa: E402
import jax.numpy as jnp  # noqa: E402
import numpy as np  # noqa: E402
import jaxley as jx  # noqa: E402
from jaxley.connect import connect as jx_connect  # noqa: E402

from . import mech, snap  # noqa: E402
from .refmodule import BASE_PARAMS, RefModule, Reject, Unspec, isnan  # noqa: E402
from .seedtree import uval  # noqa: E402

TOL_TAB = 1e-12


class HarnessError(Exception):
    pass


class Violation(Exception):
    def __init__(self, oracle, message, detail=None):
        super().__init__(f"{oracle}: {message}")
        self.oracle = oracle
        self.message = message
        self.detail = detail


@contextlib.contextmanager
def quiet():
    with contextlib.redirect_stdout(io.StringIO()):
        yield


def innermost_jaxley_frame(exc):
    """(file basename, lineno, func) of the innermost frame inside the jaxley package, or None."""
    tb = traceback.extract_tb(exc.__traceback__)
    hit = None
    for fr in tb:
        if "/jaxley/" in fr.filename and "/verif/" not in fr.filename:
            hit = (fr.filename.split("/jaxley/")[-1], fr.lineno, fr.name)
    return hit


def is_backend_refusal(exc):
    fr = innermost_jaxley_frame(exc)
    return fr is not None and fr[0] in ("solver_voltage.py", "utils/solver_utils.py")


def tracer_leak(m):
    """True if the module's private jax arrays hold leaked tracers (left behind by integrate under jax.jit)."""
    try:
        for d in (getattr(m, "jaxedges", None), getattr(m, "jaxnodes", None)):
            if d:
                for v in d.values():
                    if isinstance(v, jax.core.Tracer):
                        return True
    except Exception:  # noqa: BLE001
        return False
    return False


def exc_in_harness(exc):
    """True if the exception is a bug of the harness rather than behaviour of the system under test: walking from the
    innermost frame outwards (skipping third-party frames such as jax / numpy / pandas), the first frame that belongs to
    either side decides — jaxley: the library raised (or made JAX raise); /verif: the harness did."""
    if getattr(exc, "sut_defect", False):
        return False  # raised by a seam of the harness *about* the library (e.g. simrun.ArgsMutated)
    if type(exc).__name__ == "UnexpectedTracerError":
        # "a function transformed by JAX had a side effect": the only functions the harness transforms are thin
        # wrappers around jaxley.integrate, and the harness stores no traced values — a leaked tracer that resurfaces
        # (even at a harness call site, through an object the library mutated) is a purity failure of the library
        return False
    tb = traceback.extract_tb(exc.__traceback__)
    for fr in reversed(tb):
        fn = fr.filename
        if "/jaxley/" in fn and "/verif/" not in fn:
            return False
        if "/verif/" in fn:
            if fr.name in SEAM_PASS_THROUGH:
                continue  # a seam that forwards to the real function (e.g. the np.random wrappers): look at its caller
            return True
    return False


SEAM_PASS_THROUGH = {"binomial", "choice", "patched"}


def exc_text(exc):
    fr = innermost_jaxley_frame(exc)
    return f"{type(exc).__name__}: {str(exc)[:160]} @ {fr}"


# ----------------------------------------------------------------------------- building
def build_jx(shape):
    """share: "all" = one Compartment object, one Branch object per distinct ncomp (aliased constituents);
    "comp" = one Compartment object, a separate Branch per branch; "none" (or False) = every constituent distinct."""
    kind = shape["kind"]
    share = shape.get("share")
    share = {True: "all", False: "none", None: "all"}.get(share, share)
    comp = jx.Compartment()
    if kind == "compartment":
        return comp
    mk_comp = (lambda: comp) if share in ("all", "comp") else (lambda: jx.Compartment())
    if kind == "branch":
        k = shape["cells"][0]["ncomp"][0]
        return jx.Branch(comp, ncomp=k) if share == "all" else jx.Branch([mk_comp() for _ in range(k)])
    cells = []
    cache = {}
    cell_cache = {}
    for c in shape["cells"]:
        branches = []
        pre = c.get("pre") or {}
        for bi, k in enumerate(c["ncomp"]):
            if str(bi) in pre:
                # channels inserted into the constituent Branch *before* the Cell is assembled (own Branch object)
                br = jx.Branch([mk_comp() for _ in range(k)]) if share != "all" else jx.Branch(comp, ncomp=k)
                for cls in pre[str(bi)]:
                    br.insert(mech.make_channel(cls))
                branches.append(br)
            elif share == "all":
                if k not in cache:
                    cache[k] = jx.Branch(comp, ncomp=k)
                branches.append(cache[k])
            else:
                branches.append(jx.Branch([mk_comp() for _ in range(k)]))
        key = json.dumps(c, sort_keys=True)
        if share == "all" and kind == "network" and key in cell_cache:
            cells.append(cell_cache[key])  # the same Cell object listed several times (aliased constituent)
        else:
            cell_cache[key] = jx.Cell(branches, parents=list(c["parents"]))
            cells.append(cell_cache[key])
    if kind == "cell":
        return cells[0]
    return jx.Network(cells)


def apply_pre(ref, shape):
    """Model side of constituent-level channel insertion (shape["cells"][i]["pre"] = {branch: [channel classes]})."""
    if shape["kind"] not in ("cell", "network"):
        return
    boff = 0
    for c in shape["cells"]:
        pre = c.get("pre") or {}
        for bi in range(len(c["ncomp"])):
            for cls in pre.get(str(bi), []):
                rows = [i for i in range(ref.n) if ref.branch[i] == boff + bi]
                rv = ref.root().select(nodes=rows)
                ref.insert(rv, mech.chan_desc(cls))
        boff += len(c["ncomp"])


def shape_of_swc(text, ncomp, min_radius=None):
    """Read an SWC morphology from in-memory text (the simulator's 'disk')."""
    from jaxley.io.swc import read_swc

    with quiet():
        return read_swc(io.StringIO(text), ncomp=ncomp, max_branch_len=None, assign_groups=True, min_radius=min_radius)


# ----------------------------------------------------------------------------- index resolution
def resolve_idx(spec, domain, shape_dims=None):
    """Relative index spec -> (concrete python index for jaxley, list of concrete values or 'all')."""
    D = sorted(set(domain))
    m = len(D)
    if spec == "all":
        return "all", "all"
    t = spec["t"]
    if t == "int":
        v = D[spec["v"] % m]
        return int(v), [v]
    if t in ("list", "arr", "ulist"):
        vals = []
        for k in spec["v"]:
            x = D[k % m]
            if x not in vals:
                vals.append(x)
        if t != "ulist":
            vals = sorted(vals)
        return (np.asarray(vals, dtype=int) if t == "arr" else [int(v) for v in vals]), vals
    if t == "range":
        lo = D[spec["a"] % m]
        hi = D[spec["b"] % m]
        lo, hi = min(lo, hi), max(lo, hi)
        return range(int(lo), int(hi) + 1), [d for d in D if lo <= d <= hi]
    if t == "slice":
        hi = D[spec["b"] % m]
        st = spec.get("step")  # None or k >= 2: every k-th index (net[::2])
        on = (lambda d, lo_: (d - lo_) % st == 0) if st else (lambda d, lo_: True)
        if spec.get("a") is None:
            return slice(None if st else 0, int(hi) + 1, st), [d for d in D if 0 <= d <= hi and on(d, 0)]
        lo = D[spec["a"] % m]
        lo, hi = min(lo, hi), max(lo, hi)
        if spec.get("open"):
            return slice(int(lo), None, st), [d for d in D if d >= lo and on(d, lo)]
        return slice(int(lo), int(hi) + 1, st), [d for d in D if lo <= d <= hi and on(d, lo)]
    if t == "mask":
        contiguous = D == list(range(m))
        if contiguous and shape_dims is not None and m in shape_dims:
            bits = [bool(spec["bits"][i % len(spec["bits"])]) for i in range(m)]
            if not any(bits):
                bits[spec["bits"][0] % m if isinstance(spec["bits"][0], int) else 0] = True
            return np.asarray(bits, dtype=bool), [d for d, b in zip(D, bits) if b]
        v = D[len(spec["bits"]) % m]
        return int(v), [v]
    raise HarnessError(f"bad index spec {spec}")


def jsonable_idx(ci):
    if isinstance(ci, np.ndarray):
        return {"np": ci.dtype.kind, "v": ci.tolist()}
    if isinstance(ci, range):
        return {"range": [ci.start, ci.stop]}
    if isinstance(ci, slice):
        return {"slice": [ci.start, ci.stop] + ([ci.step] if ci.step else [])}
    return ci


# ----------------------------------------------------------------------------- World
class World:
    def __init__(self, shape, record_events=True):
        self.shape = shape
        with quiet():
            if shape["kind"] == "swc":
                self.m = shape_of_swc(shape["swc_text"], shape.get("ncomp", 1))
                self.ref = ref_from_module(self.m)
                self.ref.swc = True
            else:
                self.m = build_jx(shape)
                self.ref = RefModule(shape["kind"], shape["cells"])
                apply_pre(self.ref, shape)
        self.violations = []
        self.stats = {}
        self.chain = snap.Chain()
        self.stopped = None  # reason why the history stopped being interpreted (Unspec)
        self.handles = {}    # id -> view handle kept alive across operations (see resolve_view)
        self.epoch = 0       # bumped by structural edits / restarts: older handles are stale (outside every statement)
        self.io_epoch = 0    # bumped by every change of recordings / inputs

    def bump(self, key, k=1):
        self.stats[key] = self.stats.get(key, 0) + k

    def violate(self, oracle, message, op_index=None, detail=None):
        self.violations.append({"oracle": oracle, "message": message[:600], "op_index": op_index, "detail": detail})

    # ---------------------------------------------------------------- views
    def resolve_view(self, vspec, m=None, ref=None):
        """Returns (rv, thunk) where thunk() builds the jaxley view.  Raises Reject/Unspec from the model."""
        m = self.m if m is None else m
        ref = self.ref if ref is None else ref
        rv = ref.root()
        calls = []
        start = None
        if vspec and vspec[0][0] == "handle":
            # a view object created by an earlier operation and kept in a variable by the session
            h = getattr(self, "handles", {}).get(vspec[0][1])
            if h is None or h["epoch"] != getattr(self, "epoch", 0):
                raise Unspec("stale or unknown view handle")
            from .refmodule import RV

            rv = RV(ref, h["N"], h["E"], h["scope"], h["nctrl"], h["ectrl"], h["kind"], h["syn_local"])
            start = h
            vspec = vspec[1:]

        def make_thunk(calls):
            def thunk():
                v = m if start is None else start["view"]
                for name, arg in calls:
                    if name in ("cell", "branch", "comp", "edge", "loc", "scope"):
                        v = getattr(v, name)(arg)
                    elif name == "select_nodes":
                        v = v.select(nodes=arg)
                    elif name == "select_edges":
                        v = v.select(edges=arg)
                    elif name == "attr":
                        v = getattr(v, arg)
                        if v is None:
                            raise AttributeError(arg)
                return v

            return thunk

        try:
            rv = self._resolve_steps(rv, vspec, calls)
        except Reject as e:
            e.thunk = make_thunk(list(calls))
            e.calls = [(n, jsonable_idx(a)) for n, a in calls]
            raise
        return rv, make_thunk(calls), [(n, jsonable_idx(a)) for n, a in calls]

    def _resolve_steps(self, rv, vspec, calls):
        ref = rv.ref
        for step in vspec:
            kind = step[0]
            if kind in ("cell", "branch", "comp"):
                col = rv.col(kind) if kind in rv.levels() else None
                if col is None:
                    raise Reject(f"{ref.kind} does not support {kind}")
                dims = _shape_dims(rv)
                ci, vals = resolve_idx(step[1], col.values(), dims)
                calls.append((kind, ci))
                rv = rv.at(kind, vals)
            elif kind == "scope":
                calls.append(("scope", step[1]))
                rv = rv.with_scope(step[1])
            elif kind == "select_nodes":
                ci, vals = resolve_idx(step[1], rv.N)
                if vals == "all":
                    vals = list(rv.N)
                    ci = "all"
                elif isinstance(ci, (range, slice)) and len(vals) != len(range(*ci.indices(10**9)) if isinstance(ci, slice) else ci):
                    # select() takes row labels: a range / slice that spans labels which are not in the view is not a
                    # well-formed request; the present labels are passed explicitly instead
                    ci = [int(v) for v in vals]
                calls.append(("select_nodes", ci))
                rv = rv.select(nodes=vals)
            elif kind == "select_edges":
                if not rv.E:
                    raise Unspec("select edges without edges")
                ci, vals = resolve_idx(step[1], rv.E)
                if vals == "all":
                    vals = list(rv.E)
                    ci = "all"
                elif isinstance(ci, (range, slice)) and len(vals) != len(range(*ci.indices(10**9)) if isinstance(ci, slice) else ci):
                    ci = [int(v) for v in vals]
                calls.append(("select_edges", ci))
                rv = rv.select(edges=vals)
            elif kind == "group":
                calls.append(("attr", step[1]))
                rv = rv.group(step[1])
            elif kind == "channel":
                calls.append(("attr", step[1]))
                rv = rv.channel(step[1])
            elif kind == "syn":
                calls.append(("attr", step[1]))
                rv = rv.syn(step[1])
            elif kind == "edge":
                if not rv.E:
                    raise Unspec("edge() without edges")
                if rv.scope == "global":
                    dom = rv.E
                elif rv.syn_local is not None:
                    dom = [rv.syn_local[e] for e in rv.E]
                else:
                    raise Unspec("edge() in local scope on a non-synapse view")
                ci, vals = resolve_idx(step[1], dom)
                calls.append(("edge", ci))
                rv = rv.edge(vals)
            elif kind == "loc":
                at_ = step[1] if (step[1] == "all" or isinstance(step[1], list)) else float(step[1])
                calls.append(("loc", at_))
                rv = rv.loc(at_)
            else:
                raise HarnessError(f"bad view step {step}")

        return rv


    # ---------------------------------------------------------------- values
    def values_for(self, key, spec, k, default=None, is_state=False):
        """float or list of floats (attributable)."""
        lo, hi = mech.value_range(key, default, is_state)
        if isinstance(spec, (int, float)):
            return float(spec)
        rnd = (lambda x: float(round(x))) if spec.get("round") else (lambda x: x)  # round numbers, as typed by people
        if "seed" in spec and spec.get("array"):
            return [rnd(uval(spec["seed"], key, j, lo, hi)) for j in range(k)]
        return rnd(uval(spec["seed"], key, 0, lo, hi))

    def key_default(self, key):
        for c in self.ref.chans.values():
            if key in c["params"]:
                return c["params"][key], False
            if key in c["states"]:
                return c["states"][key], True
        for s in self.ref.syns:
            if key in s["params"]:
                return s["params"][key], False
            if key in s["states"]:
                return s["states"][key], True
        return None, key == "v"

    # ---------------------------------------------------------------- conformance
    def conform(self, op_index=None, what="tables_conform"):
        d = conform(self.ref, self.m)
        if d:
            self.violate(what, "; ".join(d[:6]), op_index)
        return not d


def _shape_dims(rv):
    r = rv.ref
    dims = [len(set(r.cell[n] for n in rv.N)), len(set(r.branch[n] for n in rv.N)), len(rv.N)]
    lv = {"network": 0, "cell": 1, "branch": 2, "compartment": 3}[r.kind]
    return set(dims[lv:] + [len(rv.E)])


def feq(a, b, tol=TOL_TAB):
    if isnan(a) and isnan(b):
        return True
    if isnan(a) or isnan(b):
        return False
    a = float(a)
    b = float(b)
    return a == b or abs(a - b) <= tol * (1.0 + max(abs(a), abs(b)))


def _conform_trainables_flat(ref, m, exp):
    """After a view-level delete_trainables that cut through shared parameters the list structure is the library's
    choice: compare the multiset of (key, rows written, value), and the library's own list consistency."""
    out = []
    if len(m.trainable_params) != len(m.indices_set_by_trainables):
        return [f"{len(m.trainable_params)} trainable_params but {len(m.indices_set_by_trainables)} index arrays"]
    got = []
    for j, (p, inds) in enumerate(zip(m.trainable_params, m.indices_set_by_trainables)):
        key = next(iter(p.keys()))
        vals = np.asarray(next(iter(p.values())), dtype=float).reshape(-1).tolist()
        inds = np.asarray(inds).astype(int)
        if inds.ndim != 2 or inds.shape[0] != len(vals):
            out.append(f"trainable {j} ({key}) has {len(vals)} values for index array of shape {inds.shape}")
            continue
        nrows = ref.n if key in ref.cols else len(ref.edges)
        for row, v in zip(inds.tolist(), vals):
            got.append((key, sorted(set((int(i) % nrows) if i < 0 else int(i) for i in row)), v))
    want = [(e["key"], sorted(g), v) for e in exp["trainables"] for g, v in zip(e["groups"], e["vals"])]
    if out:
        return out
    if len(got) != len(want):
        return [f"{len(got)} trainable parameters, expected {len(want)}"]
    got.sort()      # which survivor comes first in the list is the library's choice too
    want.sort()
    for j, (a, b) in enumerate(zip(got, want)):
        if a[0] != b[0] or a[1] != b[1] or not feq(a[2], b[2], 1e-9):
            out.append(f"trainable parameter {j}: {a} expected {b}")
    return out


def conform(ref, m, tol=TOL_TAB):
    """Differences between RefModule's prediction and the module's public tables (semantic content)."""
    out = []
    exp = ref.expected_tables()
    nd = m.nodes
    if list(nd.index) != list(range(ref.n)):
        out.append(f"nodes.index {list(nd.index)[:8]}.. != range({ref.n})")
        return out
    ignore = {"controlled_by_param", "x", "y", "z"}
    have = {c for c in nd.columns if c not in ignore and not c.startswith("local_")}
    want = set(exp["nodes"])
    if have != want:
        out.append(f"node columns: unexpected {sorted(have - want)} missing {sorted(want - have)}")
    for c in sorted(want & have):
        got = nd[c].tolist()
        for i, (g, e) in enumerate(zip(got, exp["nodes"][c])):
            if isinstance(e, bool):
                ok = (not _isna(g)) and bool(g) == e
            elif isinstance(e, int):
                ok = (not _isna(g)) and int(g) == e
            else:
                ok = feq(None if _isna(g) else g, e, tol)
            if not ok:
                out.append(f"nodes[{c}][{i}] = {g!r}, expected {e!r}")
                break
    ed = m.edges
    if len(ed) != len(ref.edges):
        out.append(f"{len(ed)} edges, expected {len(ref.edges)}")
    elif len(ed):
        if list(ed.index) != list(range(len(ed))):
            out.append(f"edges.index {list(ed.index)}")
        ehave = {c for c in ed.columns if c not in ("controlled_by_param", "pre_locs", "post_locs") and not c.startswith("local_")}
        ewant = set(exp["edges"])
        if ehave != ewant:
            out.append(f"edge columns: unexpected {sorted(ehave - ewant)} missing {sorted(ewant - ehave)}")
        for c in sorted(ewant & ehave):
            got = ed[c].tolist()
            for i, (g, e) in enumerate(zip(got, exp["edges"][c])):
                if isinstance(e, str):
                    ok = g == e
                elif isinstance(e, int):
                    ok = (not _isna(g)) and int(g) == e
                else:
                    ok = feq(None if _isna(g) else g, e, tol)
                if not ok:
                    out.append(f"edges[{c}][{i}] = {g!r}, expected {e!r}")
                    break
    rec = m.recordings
    got = [[int(r), str(s)] for r, s in zip(rec["rec_index"].tolist(), rec["state"].tolist())] if len(rec) else []
    if got != exp["recordings"]:
        out.append(f"recordings {got} expected {exp['recordings']}")
    if set(m.externals) != set(exp["externals"]) or set(m.external_inds) != set(exp["externals"]):
        out.append(f"externals keys {sorted(m.externals)} / {sorted(m.external_inds)} expected {sorted(exp['externals'])}")
    else:
        for k, lst in exp["externals"].items():
            inds = [int(i) for i in np.asarray(m.external_inds[k]).tolist()]
            if inds != [t for t, _ in lst]:
                out.append(f"external_inds[{k}] {inds} expected {[t for t, _ in lst]}")
                continue
            arr = np.asarray(m.externals[k], dtype=float)
            want_arr = np.asarray([a for _, a in lst], dtype=float)
            if arr.shape != want_arr.shape or not np.array_equal(arr, want_arr):
                out.append(f"externals[{k}] values differ (shape {arr.shape} vs {want_arr.shape})")
    if any(e.get("split") for e in exp["trainables"]):
        out += _conform_trainables_flat(ref, m, exp)
    elif len(m.trainable_params) != len(exp["trainables"]) or len(m.indices_set_by_trainables) != len(exp["trainables"]):
        out.append(f"{len(m.trainable_params)} trainables, expected {len(exp['trainables'])}")
    else:
        for j, (p, inds, e) in enumerate(zip(m.trainable_params, m.indices_set_by_trainables, exp["trainables"])):
            key = next(iter(p.keys()))
            vals = np.asarray(next(iter(p.values())), dtype=float).reshape(-1).tolist()
            if key != e["key"]:
                out.append(f"trainable {j} key {key} expected {e['key']}")
                continue
            inds = np.asarray(inds).astype(int)
            nrows = ref.n if key in ref.cols else len(ref.edges)
            rows = [sorted(set((int(i) % nrows) if i < 0 else int(i) for i in row)) for row in inds.tolist()]
            if rows != [sorted(g) for g in e["groups"]]:
                out.append(f"trainable {j} ({key}) writes rows {rows}, expected groups {[sorted(g) for g in e['groups']]}")
            if len(vals) != len(e["vals"]) or not all(feq(a, b, 1e-9) for a, b in zip(vals, e["vals"])):
                out.append(f"trainable {j} ({key}) values {vals} expected {e['vals']}")
    n_expected = sum(len(e["groups"]) for e in exp["trainables"])
    if int(m.num_trainable_params) != n_expected:
        out.append(f"num_trainable_params {m.num_trainable_params} expected {n_expected}")
    groups = {k: sorted(int(i) for i in np.asarray(v).tolist()) for k, v in m.groups.items()}
    if groups != exp["groups"]:
        out.append(f"groups {groups} expected {exp['groups']}")
    ncb = [int(i) for i in np.asarray(m.ncomp_per_branch).tolist()] if ref.kind != "compartment" else None
    if ncb is not None and ncb != exp["ncomp_per_branch"]:
        out.append(f"ncomp_per_branch {ncb} expected {exp['ncomp_per_branch']}")
    par = [int(i) for i in np.asarray(m.comb_parents).tolist()]
    if par != exp["comb_parents"]:
        out.append(f"comb_parents {par} expected {exp['comb_parents']}")
    if sorted(c._name for c in m.channels) != sorted(exp["channels"]):
        out.append(f"channels {[c._name for c in m.channels]} expected {exp['channels']}")
    if sorted(m.membrane_current_names) != sorted(exp["current_names"]):
        out.append(f"membrane_current_names {m.membrane_current_names} expected {exp['current_names']}")
    if list(m.synapse_names) != exp["synapse_names"]:
        out.append(f"synapse_names {m.synapse_names} expected {exp['synapse_names']}")
    return out


def _isna(x):
    if x is None:
        return True
    try:
        return bool(x != x)
    except Exception:
        return False


def ref_from_module(m):
    """Build a RefModule from the displayed tables of an existing module (used for SWC cells and twins)."""
    nd = m.nodes
    kind = type(m).__name__.lower()
    ref = RefModule.__new__(RefModule)
    RefModule.__init__(ref, kind, [])
    ref.cell = [int(x) for x in nd["global_cell_index"].tolist()]
    ref.branch = [int(x) for x in nd["global_branch_index"].tolist()]
    ref.n = len(ref.cell)
    ref.ncomp_per_branch = [int(x) for x in np.asarray(m.ncomp_per_branch).tolist()]
    ref.parents = [int(x) for x in np.asarray(m.comb_parents).tolist()]
    ref.cols = {}
    for k in BASE_PARAMS + ["v"]:
        ref.cols[k] = [None if _isna(x) else float(x) for x in nd[k].tolist()]
    for ch in m.channels:
        d = {"params": dict(ch.channel_params), "states": dict(ch.channel_states), "current": ch.current_name,
             "cls": type(ch).__name__}
        ref.chans[ch._name] = d
        ref.flags[ch._name] = [bool(x) for x in nd[ch._name].tolist()]
        for col in list(d["params"]) + list(d["states"]):
            ref.cols[col] = [None if _isna(x) else float(x) for x in nd[col].tolist()]
    ref.currents = list(m.membrane_current_names)
    ref.groups = {k: sorted(int(i) for i in np.asarray(v).tolist()) for k, v in m.groups.items()}
    ed = m.edges
    for s in m.synapses:
        ref.syns.append({"name": s._name, "params": dict(s.synapse_params), "states": dict(s.synapse_states),
                         "cls": type(s).__name__})
    for e in ed.index.tolist():
        row = ed.loc[e]
        sy = [s for s in ref.syns if s["name"] == row["type"]][0]
        vals = {k: (None if _isna(row[k]) else float(row[k])) for k in list(sy["params"]) + list(sy["states"])}
        ref.edges.append({"pre": int(row["pre_global_comp_index"]), "post": int(row["post_global_comp_index"]),
                          "type": row["type"], "vals": vals})
    rec = m.recordings
    ref.recordings = [[int(r), str(s)] for r, s in zip(rec["rec_index"].tolist(), rec["state"].tolist())] if len(rec) else []
    for k in m.externals:
        inds = [int(i) for i in np.asarray(m.external_inds[k]).tolist()]
        arr = np.asarray(m.externals[k], dtype=float)
        ref.externals[k] = [[t, [float(x) for x in a]] for t, a in zip(inds, arr)]
    return ref
