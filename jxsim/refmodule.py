"""RefModule — a plain-Python model of what jaxley's public tables must contain (oracle 1).

Imports nothing from jaxley / pandas / jax.  Implements the *documented* semantics of the
editing API (DESIGN.md Appendix A) and the view index algebra.  Three-valued predictions:

    returns normally  -> the call must be accepted and the tables must equal this model
    raises Reject     -> the call must raise (documented precondition / unknown key / empty view)
    raises Unspec     -> outside documented semantics; nothing is asserted (history stops there)
"""
import copy
import math

BASE_PARAMS = ["radius", "length", "axial_resistivity", "capacitance"]
BASE_STATES = ["v"]
BASE_DEFAULTS = {"radius": 1.0, "length": 10.0, "axial_resistivity": 5000.0, "capacitance": 1.0, "v": -70.0}
NAN = None  # NaN is represented by None


class Reject(Exception):
    pass


class Unspec(Exception):
    pass


def isnan(x):
    return x is None or (isinstance(x, float) and math.isnan(x))


class RV:
    """Reference view: ordered node ids N, ordered edge ids E, scope, and the controlled_by_param maps
    that decide parameter sharing in make_trainable."""

    def __init__(self, ref, N, E, scope, nctrl, ectrl, kind, syn_local=None):
        self.ref = ref
        self.N = list(N)
        self.E = list(E)
        self.scope = scope
        self.nctrl = dict(nctrl)
        self.ectrl = dict(ectrl)
        self.kind = kind  # "module", "cell", "branch", "comp", "loc", "filter", "edge", "group", "channel", "syn", "view"
        self.syn_local = syn_local  # edge id -> local_edge_index (only on views derived from a synapse-type view)

    # --- index columns -------------------------------------------------
    def col(self, key):
        """scoped index column {node: value} for key in cell/branch/comp."""
        r = self.ref
        g = {"cell": r.cell, "branch": r.branch, "comp": list(range(r.n))}[key]
        if self.scope == "global":
            return {n: g[n] for n in self.N}
        out = {}
        if key == "cell":
            u = sorted(set(r.cell[n] for n in self.N))
            return {n: u.index(r.cell[n]) for n in self.N}
        if key == "branch":
            for c in set(r.cell[n] for n in self.N):
                u = sorted(set(r.branch[n] for n in self.N if r.cell[n] == c))
                for n in self.N:
                    if r.cell[n] == c:
                        out[n] = u.index(r.branch[n])
            return out
        for b in set(r.branch[n] for n in self.N):
            u = sorted(n for n in self.N if r.branch[n] == b)
            for n in u:
                out[n] = u.index(n)
        return out

    def local_cols(self):
        loc = RV(self.ref, self.N, self.E, "local", self.nctrl, self.ectrl, self.kind)
        return {k: loc.col(k) for k in ("cell", "branch", "comp")}

    def levels(self):
        """Child levels of the *base* module (jaxley asserts base._has_childview(key))."""
        return {"network": ["cell", "branch", "comp"], "cell": ["branch", "comp"], "branch": ["comp"], "compartment": []}[self.ref.kind]

    # --- derived views -------------------------------------------------
    def _edges_within(self, N):
        s = set(N)
        return sorted(e for e in self.E if self.ref.edges[e]["pre"] in s and self.ref.edges[e]["post"] in s)

    def at(self, key, values):
        """values: list of concrete index values, or 'all'."""
        if key not in self.levels():
            raise Reject(f"{self.ref.kind} does not support {key}")
        c = self.col(key)
        vs = set(c.values()) if values == "all" else set(values)
        N = [n for n in self.N if c[n] in vs]
        if not N:
            raise Reject("nothing in view")
        E = self._edges_within(N)
        g = {"cell": self.ref.cell, "branch": self.ref.branch, "comp": list(range(self.ref.n))}[key]
        nctrl = {n: g[n] for n in N}
        ectrl = {e: 0 for e in E}
        return RV(self.ref, N, E, self.scope, nctrl, ectrl, key)

    def with_scope(self, scope):
        return RV(self.ref, self.N, self.E, scope, self.nctrl, self.ectrl, "view", self.syn_local)

    def select(self, nodes=None, edges=None):
        r = self.ref
        if nodes is not None and edges is None:
            for n in nodes:
                if not (0 <= n < r.n):
                    raise Reject("node label out of range")
            # jaxley: View(self, nodes) -> pointer.nodes.loc[nodes] must exist in the pointer's view
            for n in nodes:
                if n not in self.N:
                    raise Reject("node not in view")
            if len(set(nodes)) != len(nodes):
                raise Unspec("duplicate labels in select")
            N = list(nodes)
            E = self._edges_within(N)
        elif edges is not None and nodes is None:
            for e in edges:
                if e not in self.E:
                    raise Reject("edge not in view")
            if len(set(edges)) != len(edges):
                raise Unspec("duplicate labels in select")
            E = list(edges)
            touched = set()
            for e in E:
                touched.add(r.edges[e]["pre"])
                touched.add(r.edges[e]["post"])
            N = sorted(n for n in self.N if n in touched)
        else:
            raise Unspec("select with both or neither")
        if not N:
            raise Reject("nothing in view")
        return RV(r, N, E, self.scope, {n: i for i, n in enumerate(N)}, {e: i for i, e in enumerate(E)}, "filter")

    def group(self, name):
        r = self.ref
        if name not in r.groups:
            raise Unspec("unknown group attribute")
        if name in getattr(r, "unordered_groups", ()):
            raise Unspec("view of a group created from an unsorted view (member order unspecified)")
        members = [n for n in sorted(r.groups[name]) if n in set(self.N)]
        if not members:
            raise Reject("nothing in view")
        v = self.select(nodes=members)
        return RV(r, v.N, v.E, self.scope, {n: 0 for n in v.N}, {e: 0 for e in v.E}, "group")

    def channel(self, name):
        r = self.ref
        if name not in r.flags:
            raise Unspec("unknown channel attribute")
        members = [n for n in self.N if r.flags[name][n]]
        if not members:
            raise Reject("nothing in view")
        v = self.select(nodes=members)
        return RV(r, v.N, v.E, self.scope, {n: 0 for n in v.N}, {e: 0 for e in v.E}, "channel")

    def syn(self, name):
        r = self.ref
        if name not in [s["name"] for s in r.syns]:
            raise Unspec("unknown synapse attribute")
        E = [e for e in self.E if r.edges[e]["type"] == name]
        if not E:
            raise Reject("nothing in view")
        touched = set()
        for e in E:
            touched.add(r.edges[e]["pre"])
            touched.add(r.edges[e]["post"])
        N = sorted(n for n in self.N if n in touched)
        # node ctrl is inherited from the pointer, then _set_controlled_by_param(name) -> 0
        return RV(r, N, E, self.scope, {n: 0 for n in N}, {e: 0 for e in E}, "syn", syn_local={e: i for i, e in enumerate(E)})

    def edge(self, values):
        """edge(idx): global scope -> by global edge index; on a synapse-type view in local scope -> rank within that view."""
        r = self.ref
        if self.scope == "global":
            ids = {e: e for e in self.E}
        else:
            if self.syn_local is None:
                raise Unspec("edge() in local scope on a view not derived from a synapse-type view")
            ids = {e: self.syn_local[e] for e in self.E}
        vs = set(ids.values()) if values == "all" else set(values)
        E = [e for e in self.E if ids[e] in vs]
        touched = set()
        for e in E:
            touched.add(r.edges[e]["pre"])
            touched.add(r.edges[e]["post"])
        N = sorted(n for n in self.N if n in touched)
        if not N:
            raise Reject("nothing in view")
        return RV(r, N, E, self.scope, {n: self.nctrl.get(n, 0) for n in N}, {e: i for i, e in enumerate(E)}, "edge",
                  syn_local={e: self.syn_local[e] for e in E} if self.syn_local else None)

    def loc(self, at):
        """at: float in [0, 1], list of such floats, or "all" (every compartment of the branches in view)."""
        r = self.ref
        comps = []
        branches = []
        for n in self.N:
            if r.branch[n] not in branches:
                branches.append(r.branch[n])
        ats = None if at == "all" else (list(at) if isinstance(at, (list, tuple)) else [at])
        for b in branches:
            k = r.ncomp_per_branch[b]
            start = sum(r.ncomp_per_branch[:b])
            if ats is None:
                comps += list(range(start, start + k))
                continue
            for a in ats:
                if not (0.0 <= a <= 1.0):
                    raise Unspec("loc outside [0, 1]")
                # the compartment containing relative position `a`; at an interior compartment boundary the
                # denotation is ambiguous (two conventions) and nothing is asserted
                idx = min(int(math.floor(a * k)), k - 1)
                frac = a * k
                if 0 < a < 1 and abs(frac - round(frac)) < 1e-6:
                    raise Unspec("loc at a compartment boundary")
                comps.append(idx + start)
        v = RV(r, self.N, self.E, "global", self.nctrl, self.ectrl, "view").at("comp", comps)
        return RV(r, v.N, v.E, self.scope, v.nctrl, v.ectrl, "loc")


class RefModule:
    def __init__(self, kind, cells):
        """cells: list of {"parents": [...], "ncomp": [...]} (one entry for cell/branch/compartment kinds)."""
        self.kind = kind
        self.cell = []
        self.branch = []
        self.ncomp_per_branch = []
        self.parents = []
        boff = 0
        for ci, c in enumerate(cells):
            for bi, k in enumerate(c["ncomp"]):
                self.ncomp_per_branch.append(k)
                for _ in range(k):
                    self.cell.append(ci)
                    self.branch.append(boff + bi)
            for bi, p in enumerate(c["parents"]):
                self.parents.append(-1 if p == -1 else p + boff)
            boff += len(c["ncomp"])
        self.n = len(self.cell)
        self.cols = {k: [BASE_DEFAULTS[k]] * self.n for k in BASE_PARAMS + BASE_STATES}
        self.flags = {}      # channel name -> [bool]*n    (registry order = insertion order of dict)
        self.chans = {}      # channel name -> {"params":{k:default}, "states":{k:default}, "current":str, "cls":str}
        self.currents = []   # membrane_current_names
        self.edges = []      # {"pre","post","type","vals":{col:value}}
        self.syns = []       # {"name","params":{},"states":{},"cls"}
        self.groups = {}
        self.recordings = [] # [index, state]
        self.externals = {}  # key -> list of [index, [samples...]]
        self.trainables = [] # {"key","groups":[[rows]],"vals":[...]}
        self.swc = False

    def clone(self):
        return copy.deepcopy(self)

    # ------------------------------------------------------------------ views
    def root(self, scope="local"):
        return RV(self, range(self.n), range(len(self.edges)), scope, {n: 0 for n in range(self.n)},
                  {e: 0 for e in range(len(self.edges))}, "module")

    # ------------------------------------------------------------------ names
    def comp_states(self):
        out = []
        for c in self.chans.values():
            out += list(c["states"])
        return out + ["v", "i"] + list(self.currents)

    def edge_states(self):
        out = []
        for s in self.syns:
            out += list(s["states"])
        return out + [f"i_{s['name']}" for s in self.syns]

    def view_comp_states(self, rv):
        """_get_state_names on a view: channels in view only."""
        out = []
        cur = []
        for name, c in self.chans.items():
            if any(self.flags[name][n] for n in rv.N):
                out += list(c["states"])
                cur.append(c["current"])  # NB: jaxley lists one entry per channel (duplicates possible)
        return out + ["v", "i"] + cur

    def view_edge_states(self, rv):
        out = []
        types = set(self.edges[e]["type"] for e in rv.E)
        for s in self.syns:
            if s["name"] in types:
                out += list(s["states"])
        return out + [f"i_{s['name']}" for s in self.syns]

    def syn_of_state(self, state):
        for s in self.syns:
            if state in s["states"] or state == f"i_{s['name']}":
                return s["name"]
        return None

    def node_columns(self):
        cols = list(BASE_PARAMS + BASE_STATES)
        for c in self.chans.values():
            for k in list(c["params"]) + list(c["states"]):
                if k not in cols:
                    cols.append(k)
        return cols

    def edge_columns(self):
        cols = []
        for s in self.syns:
            for k in list(s["params"]) + list(s["states"]):
                if k not in cols:
                    cols.append(k)
        return cols

    def chan_cols(self, name):
        c = self.chans[name]
        return list(c["params"]) + list(c["states"])

    def cols_used_by_others(self, name, row):
        """columns of channel `name` that another channel present in `row` also uses."""
        used = set()
        for other, c in self.chans.items():
            if other != name and self.flags[other][row]:
                used |= set(c["params"]) | set(c["states"])
        return used

    # ------------------------------------------------------------------ edits
    def set(self, rv, key, val):
        """val: float or list aligned with the not-NaN rows in view order."""
        if key in self.cols:
            rows = [n for n in rv.N if not isnan(self.cols[key][n])]
            vals = self._bcast(val, len(rows))
            for n, v in zip(rows, vals):
                self.cols[key][n] = v
            return ("nodes", rows)
        if key in self.edge_columns():
            rows = [e for e in rv.E if not isnan(self.edges[e]["vals"].get(key))]
            vals = self._bcast(val, len(rows))
            for e, v in zip(rows, vals):
                self.edges[e]["vals"][key] = v
            return ("edges", rows)
        raise Reject("unknown key")

    @staticmethod
    def _bcast(val, k):
        if isinstance(val, list):
            if len(val) != k:
                raise Unspec("array length does not match rows")
            return [float(v) for v in val]
        return [float(val)] * k

    def insert(self, rv, ch):
        """ch: {"name","params","states","current","cls"}.  Returns the list of (col,row) cells whose value is
        adopted from jaxley's display (re-insert / shared column already supplied by another channel)."""
        name = ch["name"]
        if name in self.chans:
            old = self.chans[name]
            if list(old["params"]) != list(ch["params"]) or list(old["states"]) != list(ch["states"]):
                raise Unspec("same name, different mechanism")
        else:
            self.chans[name] = {k: copy.deepcopy(ch[k]) for k in ("params", "states", "current", "cls")}
            self.flags[name] = [False] * self.n
        if ch["current"] not in self.currents:
            self.currents.append(ch["current"])
        adopt = []
        for col, default in list(ch["params"].items()) + list(ch["states"].items()):
            if col not in self.cols:
                self.cols[col] = [NAN] * self.n
        for n in rv.N:
            had = self.flags[name][n]
            others = self.cols_used_by_others(name, n)
            for col, default in list(ch["params"].items()) + list(ch["states"].items()):
                if had or col in others:
                    adopt.append((col, n, float(default)))
                else:
                    self.cols[col][n] = float(default)
            self.flags[name][n] = True
        return adopt

    def delete_channel(self, rv, name):
        if name not in self.chans or not any(self.flags[name][n] for n in rv.N):
            raise Reject("channel not in view")
        if not any(f for n, f in enumerate(self.flags[name]) if n not in set(rv.N)):
            # the channel leaves the module: its own columns and current go with it; recordings, clamps and trainables
            # that refer to them must be deleted first (F31 — before, integrate raised KeyError afterwards)
            still = set()
            for other, c in self.chans.items():
                if other != name:
                    still |= set(c["params"]) | set(c["states"])
            dropped = {col for col in self.chan_cols(name) if col not in still}
            cur = self.chans[name]["current"]
            if cur not in [c["current"] for other, c in self.chans.items() if other != name]:
                dropped.add(cur)
            used = {st for _, st in self.recordings} | set(self.externals) | {t["key"] for t in self.trainables}
            if dropped & used:
                raise Reject("channel still recorded / clamped / trainable: " + ", ".join(sorted(dropped & used)))
        for n in rv.N:
            if not self.flags[name][n]:
                continue
            others = self.cols_used_by_others(name, n)
            for col in self.chan_cols(name):
                if col not in others:
                    self.cols[col][n] = NAN
            self.flags[name][n] = False
        if not any(self.flags[name]):
            cur = self.chans[name]["current"]
            mycols = self.chan_cols(name)
            del self.chans[name]
            del self.flags[name]
            still = set()
            for c in self.chans.values():
                still |= set(c["params"]) | set(c["states"])
            for col in mycols:
                if col not in still:
                    del self.cols[col]
            if cur not in [c["current"] for c in self.chans.values()]:
                self.currents.remove(cur)

    def add_to_group(self, rv, name):
        unordered = self.__dict__.setdefault("unordered_groups", set())
        if name not in self.groups and list(rv.N) != sorted(rv.N):
            # jaxley stores the first view's order and sorts from the second call (and from any set_ncomp) on: the
            # *membership* is well defined, the order of a view made from the group is not — such a group can be
            # created, re-discretised and extended, but selecting through it is unspecified until it was sorted
            unordered.add(name)
        else:
            unordered.discard(name)
        self.groups[name] = sorted(set(self.groups.get(name, [])) | set(rv.N))

    def record(self, rv, state):
        cs, es = self.view_comp_states(rv), self.view_edge_states(rv)
        if state not in cs + es:
            raise Reject("unknown state")
        targets = rv.N if state in cs else rv.E
        if state == "i":
            raise Reject("recording 'i' (the stimulus key is not a state: must be refused, F30)")
        if state not in cs:
            owner = self.syn_of_state(state)
            if any(self.edges[e]["type"] != owner for e in targets):
                raise Unspec("synaptic state recorded on a view that holds edges of another type")
            if not targets:
                raise Unspec("synaptic recording on a view without edges")
        added = 0
        for t in targets:
            if [t, state] not in self.recordings:
                self.recordings.append([t, state])
                added += 1
        return added

    def delete_recordings(self, rv):
        if rv.kind == "module":
            self.recordings = []
            return
        # recordings of compartment states are in view iff their compartment is, recordings of synaptic states and
        # currents iff their synapse is
        cs = set(self.comp_states())
        sn, se = set(rv.N), set(rv.E)
        self.recordings = [r for r in self.recordings if not ((r[1] in cs and r[0] in sn) or (r[1] not in cs and r[0] in se))]

    def external(self, rv, key, rows_of_samples):
        """stimulate (key='i') / clamp: rows_of_samples is a list of 1..k sample lists."""
        cs, es = self.view_comp_states(rv), self.view_edge_states(rv)
        if key not in cs + es:
            raise Reject("unknown state")
        targets = rv.N if key in cs else rv.E
        if key not in cs:
            owner = self.syn_of_state(key)
            if not targets or any(self.edges[e]["type"] != owner for e in targets):
                raise Unspec("synaptic state clamped on a view without edges / with edges of another type")
            if key == f"i_{owner}":
                raise Unspec("clamp of a synaptic current")
        k = len(rows_of_samples)
        if k not in (1, len(targets)):
            raise Reject("batch does not match")
        rows = rows_of_samples if k == len(targets) else [rows_of_samples[0]] * len(targets)
        L = len(rows[0])
        for kk, lst in self.externals.items():
            if kk == key and lst and len(lst[0][1]) != L:
                raise Reject("length differs from existing inputs of this key")
        if key != "i" and any(t in [x[0] for x in self.externals.get(key, [])] for t in targets):
            raise Unspec("second clamp of the same state on the same row (which one wins is unspecified)")
        lst = self.externals.setdefault(key, [])
        for t, r in zip(targets, rows):
            lst.append([t, [float(x) for x in r]])

    def delete_external(self, rv, key):
        """key 'i' = delete_stimuli; None = all clamps; else that clamp state."""
        keys = [k for k in self.externals if k != "i"] if key is None else [key]
        cs_all = self.comp_states()
        for k in keys:
            s = set(rv.N) if k in cs_all else set(rv.E)
            if k in self.externals:
                # jaxley looks at the *view's* externals: key must be visible in the view
                if not any(t in s for t, _ in self.externals[k]):
                    continue
                keep = [x for x in self.externals[k] if x[0] not in s]
                if keep:
                    self.externals[k] = keep
                else:
                    del self.externals[k]

    def make_trainable(self, rv, key, init):
        if key in self.cols:
            rows = [n for n in rv.N if not isnan(self.cols[key][n])]
            ctrl = rv.nctrl
            get = lambda n: self.cols[key][n]
        elif key in self.edge_columns():
            # module level: every synapse that has the parameter shares one value (all rows controlled by the module)
            rows = [e for e in rv.E if not isnan(self.edges[e]["vals"].get(key))]
            ctrl = rv.ectrl
            get = lambda e: self.edges[e]["vals"][key]
        else:
            raise Reject("unknown key")
        if not rows:
            raise Reject("no settable rows")
        groups = {}
        for r in rows:
            groups.setdefault(ctrl[r], []).append(r)
        glist = [groups[c] for c in sorted(groups)]
        if init is None:
            vals = [sum(get(r) for r in g) / len(g) for g in glist]
        elif isinstance(init, float):
            vals = [init] * len(glist)
        elif isinstance(init, list):
            if len(init) != len(glist):
                raise Reject("init list length")
            vals = [float(v) for v in init]
        else:
            raise Reject("bad init")
        self.trainables.append({"key": key, "groups": glist, "vals": vals})
        return len(glist)

    def delete_trainables(self, rv):
        if rv.kind == "module":
            self.trainables = []
            return
        # Through a view: the trainables *in view* are removed, for every key (compartment and synaptic).  A parameter
        # shared by rows inside and outside the view survives with its value, for the rows outside only (F24); how the
        # library splits the survivors into list entries is its own business ("split" makes conform compare flattened).
        new = []
        for t in self.trainables:
            if t["key"] in self.cols:
                inview = set(rv.N)      # compartment parameters and states (radius, v, channel parameters, gates)
            elif t["key"] in self.edge_columns():
                inview = set(rv.E)      # synaptic parameters and states
            else:
                raise Unspec("view-level delete_trainables with a trainable of an unknown column")
            groups, vals, split = [], [], bool(t.get("split"))
            for g, v in zip(t["groups"], t["vals"]):
                keep = [r_ for r_ in g if r_ not in inview]
                if keep:
                    groups.append(keep)
                    vals.append(v)
                    split = split or len(keep) != len(g)
            if groups:
                e = {"key": t["key"], "groups": groups, "vals": vals}
                if split:
                    e["split"] = True
                new.append(e)
        self.trainables = new

    def write_trainables(self, values, skip_absent=False):
        """values: list (per trainable) of list of floats.  skip_absent: rows whose value is NaN (the channel was
        deleted there after make_trainable) are left alone — used to form the *simulated* model, where a parameter of an
        absent channel has no effect."""
        for t, vals in zip(self.trainables, values):
            key = t["key"]
            for g, v in zip(t["groups"], vals):
                for r in g:
                    if key in self.cols:
                        if skip_absent and isnan(self.cols[key][r]):
                            continue
                        self.cols[key][r] = float(v)
                    else:
                        self.edges[r]["vals"][key] = float(v)

    def connect(self, pre_nodes, post_nodes, syn):
        """syn: {"name","params","states","cls"}"""
        if self.kind != "network":
            raise Reject("not a network")
        if len(pre_nodes) != len(post_nodes):
            raise Reject("pre/post of different length")  # must be refused and leave nothing behind (F29)
        names = [s["name"] for s in self.syns]
        if syn["name"] in names:
            old = self.syns[names.index(syn["name"])]
            if list(old["params"]) != list(syn["params"]) or list(old["states"]) != list(syn["states"]):
                raise Unspec("same name, different synapse")
        else:
            self.syns.append(copy.deepcopy(syn))
        new = []
        for a, b in zip(pre_nodes, post_nodes):
            vals = {k: float(v) for k, v in list(syn["params"].items()) + list(syn["states"].items())}
            self.edges.append({"pre": a, "post": b, "type": syn["name"], "vals": vals})
            new.append(len(self.edges) - 1)
        return new

    def set_ncomp(self, rv, n, direct_radius=None):
        """rv must be exactly one whole branch.  Returns old->new label information."""
        if self.recordings or self.externals or self.trainables:
            raise Reject("recordings / inputs / trainables present")
        if self.kind == "network":
            raise Reject("network")
        branches = sorted(set(self.branch[x] for x in rv.N))
        if self.kind == "cell" and len(branches) == len(self.ncomp_per_branch):
            raise Reject("all branches of a cell")
        if len(branches) != 1:
            raise Reject("set_ncomp on several branches")  # must be refused (F28): the code treats the view as one branch
        b = branches[0]
        rows = [x for x in range(self.n) if self.branch[x] == b]
        if sorted(rv.N) != rows:
            raise Reject("set_ncomp on part of a branch")
        for key in ["length", "capacitance", "axial_resistivity"] + ([] if self.swc else ["radius"]):
            if len(set(self.cols[key][r] for r in rows)) != 1:
                raise Reject(f"non-uniform {key}")
        for name in self.flags:
            if len(set(self.flags[name][r] for r in rows)) != 1:
                raise Reject("channel only in part of the branch")
        for name, c in self.chans.items():
            for col in list(c["params"]) + list(c["states"]):
                vals = [self.cols[col][r] for r in rows]
                if any(isnan(v) for v in vals):
                    if not all(isnan(v) for v in vals):
                        raise Unspec("partly NaN column in branch")
                elif len(set(vals)) != 1:
                    raise Reject("non-uniform channel property")
        if n < 1:
            raise Unspec("ncomp < 1")
        old_k = len(rows)
        start = rows[0]
        total = sum(self.cols["length"][r] for r in rows)
        newcols = {}
        for col, vals in self.cols.items():
            v0 = vals[start]
            if col == "length":
                seg = [total / n] * n
            elif col == "radius" and self.swc:
                seg = list(direct_radius) if direct_radius is not None else [NAN] * n
            elif col == "v":
                # the only column the library lets differ within the branch: new rows show the average (documented)
                seg = [sum(vals[start:start + old_k]) / old_k] * n
            else:
                # mean over identical values (may differ by 1 ulp from v0; compared with tol_tab)
                seg = [v0] * n
            newcols[col] = vals[:start] + seg + vals[start + old_k:]
        self.cols = newcols
        for name in self.flags:
            f = self.flags[name]
            self.flags[name] = f[:start] + [f[start]] * n + f[start + old_k:]
        self.cell = self.cell[:start] + [self.cell[start]] * n + self.cell[start + old_k:]
        self.branch = self.branch[:start] + [b] * n + self.branch[start + old_k:]
        self.ncomp_per_branch[b] = n
        shift = n - old_k
        # group membership is *branch* membership (C13): remap labels
        newgroups = {}
        for g, members in self.groups.items():
            out = []
            for x in members:
                if x < start:
                    out.append(x)
                elif x >= start + old_k:
                    out.append(x + shift)
            inside = [x for x in members if start <= x < start + old_k]
            if inside:
                if len(inside) != old_k:
                    raise Unspec("group holds part of the branch being re-discretised")
                out += list(range(start, start + n))
            newgroups[g] = sorted(out)
        self.groups = newgroups
        self.__dict__.setdefault("unordered_groups", set()).clear()  # set_ncomp stores every group sorted
        self.n = len(self.cell)
        return {"start": start, "old_k": old_k, "n": n}

    # ------------------------------------------------------------------ export
    def expected_tables(self):
        """Semantic content jaxley's public tables must show (see driver.conform)."""
        nodes = {"global_cell_index": list(self.cell), "global_branch_index": list(self.branch),
                 "global_comp_index": list(range(self.n))}
        for k, v in self.cols.items():
            nodes[k] = list(v)
        for k, v in self.flags.items():
            nodes[k] = list(v)
        edges = {}
        if self.edges:
            names = [s["name"] for s in self.syns]
            edges["global_edge_index"] = list(range(len(self.edges)))
            edges["pre_global_comp_index"] = [e["pre"] for e in self.edges]
            edges["post_global_comp_index"] = [e["post"] for e in self.edges]
            edges["type"] = [e["type"] for e in self.edges]
            edges["type_ind"] = [names.index(e["type"]) for e in self.edges]
            for col in self.edge_columns():
                edges[col] = [e["vals"].get(col, NAN) for e in self.edges]
        return {
            "nodes": nodes,
            "edges": edges,
            "recordings": [list(r) for r in self.recordings],
            "externals": {k: [[t, list(a)] for t, a in v] for k, v in self.externals.items()},
            "trainables": copy.deepcopy(self.trainables),
            "groups": {k: list(v) for k, v in self.groups.items()},
            "ncomp_per_branch": list(self.ncomp_per_branch),
            "comb_parents": list(self.parents),
            "channels": list(self.chans),
            "current_names": list(self.currents),
            "synapse_names": [s["name"] for s in self.syns],
        }
