"""Canonical snapshots of a jaxley module's public state, their comparison and digests.

A snapshot contains *semantic content only*: no column order, no dtypes, no private attributes,
no `controlled_by_param`, no local_* index columns (those are recomputed per view)."""
import hashlib
import json
import math

import numpy as np

IGNORED_NODE_COLS = {"controlled_by_param"}
IGNORED_EDGE_COLS = {"controlled_by_param"}


def _canon(x):
    """Canonical JSON-able scalar: floats as hex (bit exact), NaN as 'nan'."""
    if x is None:
        return None
    if isinstance(x, (bool, np.bool_)):
        return bool(x)
    if isinstance(x, (int, np.integer)):
        return int(x)
    if isinstance(x, (float, np.floating)):
        x = float(x)
        if math.isnan(x):
            return "nan"
        return x.hex()
    if isinstance(x, str):
        return x
    try:
        import pandas as pd

        if x is pd.NA:
            return "nan"
    except Exception:
        pass
    return str(x)


def _col(series):
    return [_canon(v) for v in series.tolist()]


def arr_canon(a):
    a = np.asarray(a)
    if a.dtype.kind == "f":
        a = a.astype(np.float64)
    elif a.dtype.kind in "iub":
        a = a.astype(np.int64)
    return {"shape": list(a.shape), "dtype": a.dtype.kind, "sha": hashlib.sha256(np.ascontiguousarray(a).tobytes()).hexdigest()[:24]}


def snapshot(m, with_xyzr=True, with_local=False):
    """Public state of a *module* (not a view)."""
    s = {}
    nd = m.nodes
    cols = [c for c in nd.columns if c not in IGNORED_NODE_COLS and (with_local or not c.startswith("local_"))]
    s["nodes_index"] = [int(i) for i in nd.index.tolist()]
    s["nodes"] = {c: _col(nd[c]) for c in sorted(cols)}
    ed = m.edges
    ecols = [c for c in ed.columns if c not in IGNORED_EDGE_COLS and (with_local or not c.startswith("local_"))]
    s["edges_index"] = [int(i) for i in ed.index.tolist()]
    s["edges"] = {c: _col(ed[c]) for c in sorted(ecols)} if len(ed) else {}
    rec = m.recordings
    s["recordings"] = (
        [[int(r), str(st)] for r, st in zip(rec["rec_index"].tolist(), rec["state"].tolist())] if len(rec) else []
    )
    s["externals"] = {
        k: {"inds": [int(i) for i in np.asarray(m.external_inds[k]).tolist()], "vals": arr_canon(m.externals[k])}
        for k in m.externals
    }
    s["externals_order"] = list(m.externals.keys())
    s["trainables"] = [
        {
            "key": next(iter(p.keys())),
            "inds": np.asarray(i).astype(int).tolist(),
            "vals": [_canon(v) for v in np.asarray(next(iter(p.values())), dtype=float).reshape(-1).tolist()],
        }
        for p, i in zip(m.trainable_params, m.indices_set_by_trainables)
    ]
    s["num_trainable_params"] = int(m.num_trainable_params)
    s["trainable_lists"] = [len(m.trainable_params), len(m.indices_set_by_trainables)]
    s["groups"] = {k: sorted(int(i) for i in np.asarray(v).tolist()) for k, v in m.groups.items()}
    s["ncomp_per_branch"] = [int(i) for i in np.asarray(m.ncomp_per_branch).tolist()] if getattr(m, "ncomp_per_branch", None) is not None else None
    s["comb_parents"] = [int(i) for i in np.asarray(m.comb_parents).tolist()]
    s["channels"] = [c._name for c in m.channels]
    s["current_names"] = list(m.membrane_current_names)
    s["synapse_names"] = list(m.synapse_names)
    s["synapse_current_names"] = list(m.synapse_current_names)
    if with_xyzr:
        s["xyzr"] = [arr_canon(np.nan_to_num(np.asarray(x, dtype=float), nan=-12345.0)) for x in m.xyzr]
    return s


def digest(obj) -> str:
    return hashlib.sha256(json.dumps(obj, sort_keys=True, default=str).encode()).hexdigest()


def diff(a, b, path="", out=None, limit=12):
    """List of human-readable differences between two snapshots (or any JSON-like values)."""
    if out is None:
        out = []
    if len(out) >= limit:
        return out
    if isinstance(a, dict) and isinstance(b, dict):
        for k in sorted(set(a) | set(b), key=str):
            if k not in a:
                out.append(f"{path}/{k}: missing on left")
            elif k not in b:
                out.append(f"{path}/{k}: missing on right")
            else:
                diff(a[k], b[k], f"{path}/{k}", out, limit)
        return out
    if isinstance(a, list) and isinstance(b, list):
        if len(a) != len(b):
            out.append(f"{path}: length {len(a)} != {len(b)}")
            return out
        for i, (x, y) in enumerate(zip(a, b)):
            diff(x, y, f"{path}[{i}]", out, limit)
        return out
    if a != b:
        out.append(f"{path}: {_show(a)} != {_show(b)}")
    return out


def _show(x):
    if isinstance(x, str) and x.startswith(("0x", "-0x")):
        try:
            return repr(float.fromhex(x))
        except Exception:
            return x
    return repr(x)


def unhex(x):
    if x == "nan":
        return float("nan")
    if isinstance(x, str):
        return float.fromhex(x)
    return x


def arrays_digest(*arrays) -> str:
    h = hashlib.sha256()
    for a in arrays:
        a = np.ascontiguousarray(np.asarray(a, dtype=np.float64))
        h.update(str(a.shape).encode())
        h.update(a.tobytes())
    return h.hexdigest()


class Chain:
    """SHA-256 chain over the event log of one execution."""

    def __init__(self):
        self.h = "0" * 64
        self.events = []

    def add(self, kind, payload):
        d = digest(payload)
        self.h = hashlib.sha256((self.h + kind + d).encode()).hexdigest()
        self.events.append({"i": len(self.events), "kind": kind, "d": d[:16]})
        return self.h
