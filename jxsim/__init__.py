"""jxsim — deterministic simulation with fault injection for jaxley (see /verif/DESIGN.md)."""
