"""Fault kinds that need a seam inside jaxley: `abort` (exception injected at an internal point of integrate)
and `persist` (module replaced by its pickle / deepcopy round trip).  All seams are monkeypatches applied from
outside; /repo carries no hooks."""
import contextlib
import copy
import pickle
import sys

from . import env

env.setup()
import jaxley  # noqa: E402,F401
from jaxley.modules.base import Module  # noqa: E402

INTEGRATE_MOD = sys.modules["jaxley.integrate"]
ABORT_POINTS = ["to_jax", "get_all_parameters", "get_all_states", "step", "scan_return"]


class SimAbort(Exception):
    """The injected fault: raised from inside integrate at the chosen point."""


@contextlib.contextmanager
def abort_at(point, fired):
    """Patch one internal so that it raises SimAbort the first time it is reached."""
    if point == "scan_return":
        orig = INTEGRATE_MOD.nested_checkpoint_scan

        def patched(*a, **k):
            orig(*a, **k)  # the whole scan is built/run, then the result is lost
            fired.append(point)
            raise SimAbort(point)

        INTEGRATE_MOD.nested_checkpoint_scan = patched
        try:
            yield
        finally:
            INTEGRATE_MOD.nested_checkpoint_scan = orig
        return
    name = point
    orig = Module.__dict__[name]
    before = point in ("to_jax",)

    def patched(self, *a, **k):
        if before:
            fired.append(point)
            raise SimAbort(point)
        f = getattr(orig, "__wrapped__", None)
        out = orig(self, *a, **k)
        fired.append(point)
        raise SimAbort(point)

    setattr(Module, name, patched)
    try:
        yield
    finally:
        setattr(Module, name, orig)


class PersistFailed(Exception):
    """pickle / deepcopy of the module raised: a failure of the system under test (C18), not of the harness."""


def persist(m, how):
    """'Crash and restart with only durable state': the module survives only as pickle bytes / a deep copy."""
    if how not in ("pickle", "deepcopy"):
        raise ValueError(how)
    try:
        if how == "pickle":
            return pickle.loads(pickle.dumps(m))
        return copy.deepcopy(m)
    except Exception as e:  # noqa: BLE001
        raise PersistFailed(f"{how} of the module raised {type(e).__name__}: {str(e)[:200]}") from e
