"""Mechanism catalogue: names used in programs -> jaxley classes; value ranges for attributable parameters."""
from . import env

env.setup()
import jaxley.channels as C  # noqa: E402
import jaxley.synapses as S  # noqa: E402

CHANNELS = ["HH", "Leak", "Na", "K", "Km", "CaL", "CaT"]
SYNAPSES = ["IonotropicSynapse", "TestSynapse", "TanhRateSynapse"]


def make_channel(cls, name=None):
    k = getattr(C, cls)
    return k(name) if name and name != cls else k()


def make_synapse(cls, name=None):
    k = getattr(S, cls)
    return k(name) if name and name != cls else k()


def chan_desc(cls, name=None):
    ch = make_channel(cls, name)
    return {"name": ch._name, "params": dict(ch.channel_params), "states": dict(ch.channel_states),
            "current": ch.current_name, "cls": cls}


def syn_desc(cls, name=None):
    s = make_synapse(cls, name)
    return {"name": s._name, "params": dict(s.synapse_params), "states": dict(s.synapse_states), "cls": cls}


def value_range(key, default=None, is_state=False):
    """Physiologically sane range for an attributable value of column `key`."""
    base = {"radius": (0.5, 3.0), "length": (5.0, 30.0), "axial_resistivity": (100.0, 3000.0),
            "capacitance": (0.5, 2.0), "v": (-75.0, -45.0)}
    if key in base:
        return base[key]
    if is_state:
        return (0.05, 0.95)
    short = key.split("_")[-1]
    if key in ("vt",):
        return (-65.0, -55.0)
    if short.startswith("e") and short not in ("e",) or key in ("eNa", "eK", "eCa") or short == "syn":
        d = default if default is not None else 0.0
        return (d - 8.0, d + 8.0)
    if short in ("offset",):
        return (-72.0, -60.0)
    if short in ("slope",):
        return (0.5, 1.5)
    if short in ("minus",):
        return (0.01, 0.05)
    if short in ("gS", "gC"):
        return (1e-4, 5e-3)
    if short == "taumax":
        return (500.0, 4000.0)
    if short == "vx":
        return (0.5, 4.0)
    d = default if default else 1.0
    return (0.5 * d, 1.5 * d) if d > 0 else (1.5 * d, 0.5 * d)
