"""Program generation: state-aware random histories over the lifecycle alphabet (DESIGN.md 3.2).

The generator walks a *dry* world (RefModule only, no jaxley module) so that it knows which keys, channels,
groups, edges and inputs exist; every index it emits is relative (modulo current sizes at execution time), so a
program stays executable after the shrinker removed operations or shrank the morphology."""
import copy

from . import mech
from .driver import World
from .ops import _plan
from .refmodule import BASE_PARAMS, RefModule, Reject, Unspec

ALL_OPS = ["set", "insert", "delete_channel", "set_ncomp", "group", "record", "delete_recordings", "stimulate", "clamp",
           "delete_stimuli", "delete_clamps", "make_trainable", "delete_trainables", "connect", "init_states", "move"]

DTS = [0.025, 0.025, 0.025, 0.01, 0.05, 0.1]
PARTNERS = {"Na": ["K"], "K": ["Na", "Km"], "Km": ["K"], "CaL": ["CaT"], "CaT": ["CaL"]}


class DryWorld(World):
    """RefModule only: used by the generator to track state.  `m` is None; thunks are never executed."""

    def __init__(self, shape):  # noqa: D107
        self.shape = shape
        self.m = None
        if shape["kind"] == "swc":
            from .driver import ref_from_module, shape_of_swc

            self.ref = ref_from_module(shape_of_swc(shape["swc_text"], shape.get("ncomp", 1)))
            self.ref.swc = True
        else:
            from .driver import apply_pre

            self.ref = RefModule(shape["kind"], shape["cells"])
            apply_pre(self.ref, shape)
        self.violations = []
        self.stats = {}
        self.stopped = None
        self.op_index = None
        self.handles = {}
        self.epoch = 0
        self.io_epoch = 0

    def dry_apply(self, op):
        """Apply the model's prediction; returns 'accept' | 'reject' | 'unspec'."""
        before = self.ref.clone()
        try:
            _plan(self, op)
            if op["op"] in ("set_ncomp",):
                self.epoch += 1
            if op["op"] in ("record", "stimulate", "clamp", "delete_recordings", "delete_stimuli", "delete_clamps"):
                self.io_epoch += 1
            return "accept"
        except Reject:
            self.ref = before
            return "reject"
        except Unspec:
            self.ref = before
            return "unspec"


def swarm(r, ops=ALL_OPS, keep=0.7):
    """Random subset of operation kinds with random weights (swarm testing)."""
    w = {o: r.choice([1, 1, 2, 3]) for o in ops if r.random() < keep}
    for must in ("set", "insert", "record"):
        if must in ops:
            w.setdefault(must, 2)
    return w


def idx(r, size_hint=4, forms=("int", "list", "range", "slice", "all", "mask", "arr")):
    f = r.choice(forms)
    if f == "int":
        return {"t": "int", "v": r.randrange(64)}
    if f in ("list", "arr", "ulist"):
        return {"t": f, "v": [r.randrange(64) for _ in range(r.randint(1, size_hint))]}
    if f == "range":
        return {"t": "range", "a": r.randrange(64), "b": r.randrange(64)}
    if f == "slice":
        k = r.random()
        st = r.choice([None, None, None, 2, 3])
        if k < 0.4:
            return {"t": "slice", "b": r.randrange(64), "step": st}
        return {"t": "slice", "a": r.randrange(64), "b": r.randrange(64), "open": k > 0.8, "step": st}
    if f == "mask":
        return {"t": "mask", "bits": [r.randrange(2) for _ in range(r.randint(2, 6))]}
    return "all"


def gen_node_view(r, ref, prefer=None, allow_scope=True):
    """A random chain selecting compartments.  `prefer`: ("channel", name) to start from a channel view."""
    k = r.random()
    steps = []
    if prefer is not None:
        steps.append(list(prefer))
        if r.random() < 0.6:
            return steps
    elif k < 0.12:
        return []
    elif k < 0.3:
        return [["select_nodes", idx(r, min(6, max(1, ref.n)), forms=("int", "list", "list", "range", "all", "ulist"))]]
    elif k < 0.38 and ref.groups:
        steps.append(["group", r.choice(sorted(ref.groups))])
        if r.random() < 0.6:
            return steps
    elif k < 0.46 and ref.chans:
        steps.append(["channel", r.choice(list(ref.chans))])
        if r.random() < 0.6:
            return steps
    levels = {"network": ["cell", "branch", "comp"], "cell": ["branch", "comp"], "branch": ["comp"], "compartment": []}[ref.kind]
    for lv in levels:
        if allow_scope and r.random() < 0.15:
            steps.append(["scope", r.choice(["global", "local"])])
        p = {"cell": 0.8, "branch": 0.65, "comp": 0.45}[lv]
        if r.random() < p:
            if lv == "comp" and r.random() < 0.2:
                steps.append(["loc", r.choice([0.0, 1.0, 0.5, round(r.random(), 3), 0.25, 0.75, "all", "all",
                                                [round(r.random(), 3) for _ in range(r.randint(1, 3))]])])
            else:
                steps.append([lv, idx(r, 3)])
    return steps


def gen_edge_view(r, ref, syn=None):
    names = [s["name"] for s in ref.syns]
    if not names:
        return None
    syn = syn or r.choice(names)
    k = r.random()
    if k < 0.4:
        return [["syn", syn]]
    if k < 0.75:
        return [["syn", syn], ["edge", idx(r, 3, forms=("int", "list", "all", "range"))]]
    ids = [e for e, ed in enumerate(ref.edges) if ed["type"] == syn]
    if not ids:
        return [["syn", syn]]
    pick = sorted(r.sample(ids, r.randint(1, len(ids))))
    # absolute positions are encoded relative to the list of all edges (k % n_edges == k while edges only grow)
    return [["select_edges", {"t": "list", "v": pick}]]


def settable_keys(ref):
    keys = list(BASE_PARAMS) + ["v"]
    for c in ref.chans.values():
        keys += list(c["params"]) + list(c["states"])
    out = []
    for k in keys:
        if k not in out:
            out.append(k)
    return out


def owner_channel(ref, key):
    for name, c in ref.chans.items():
        if key in c["params"] or key in c["states"]:
            return name
    return None


def gen_op(r, dw, weights, cfg):
    """One random operation, given the dry world's state.  May return None (nothing sensible to do)."""
    ref = dw.ref
    kinds = [k for k in weights if _possible(k, ref, cfg)]
    if not kinds:
        return None
    kind = r.choices(kinds, [weights[k] for k in kinds])[0]
    seed = r.randrange(1 << 30)
    if kind == "set":
        if ref.edges and r.random() < 0.35:
            key = r.choice(ref.edge_columns())
            syn = [s["name"] for s in ref.syns if key in s["params"] or key in s["states"]][0]
            view = gen_edge_view(r, ref, syn) if r.random() < 0.8 else []
        else:
            key = r.choice(settable_keys(ref))
            own = owner_channel(ref, key)
            view = gen_node_view(r, ref, prefer=("channel", own) if own and r.random() < 0.5 else None)
        val = {"seed": seed, "array": True} if r.random() < 0.3 else {"seed": seed}
        if r.random() < 0.03:
            key = "no_such_key"
        return {"op": "set", "view": view, "key": key, "val": val}
    if kind == "insert":
        cls = r.choice(cfg["channels"])
        # bias towards channels that share a parameter column / current name with one already present
        # (vt: Na,K; eK: K,Km; eCa: CaL,CaT; i_K: K,Km; i_Ca: CaL,CaT) on a *different but overlapping* support
        partners = [q for c in ref.chans.values() for q in PARTNERS.get(c["cls"], []) if q in mech.CHANNELS]
        if partners and r.random() < 0.4:
            cls = r.choice(partners)
        name = cls + "b" if r.random() < 0.15 else None
        return {"op": "insert", "view": gen_node_view(r, ref), "cls": cls, "name": name}
    if kind == "delete_channel":
        if ref.chans and r.random() < 0.9:
            name = r.choice(list(ref.chans))
            cls = ref.chans[name]["cls"]
            k = r.random()
            # whole-module and broad views cover rows with and without the other users of a shared column
            view = [] if k < 0.3 else gen_node_view(r, ref, prefer=("channel", name) if k < 0.55 else None)
            return {"op": "delete_channel", "view": view, "cls": cls, "name": name if name != cls else None}
        return {"op": "delete_channel", "view": [], "cls": r.choice(cfg["channels"]), "name": None}
    if kind == "set_ncomp":
        op = {"op": "set_ncomp", "branch": r.randrange(64), "n": r.randint(1, 5)}
        if r.random() < 0.15:
            op["odd"] = r.choice(["part", "multi"])  # reject fault: not exactly one entire branch — must be refused, nothing left behind
        return op
    if kind == "group":
        return {"op": "group", "view": gen_node_view(r, ref), "name": r.choice(["g1", "g2", "g3"])}
    if kind == "record":
        return gen_record(r, ref)
    if kind == "delete_recordings":
        return {"op": "delete_recordings", "view": gen_node_view(r, ref) if r.random() < 0.5 else []}
    if kind == "stimulate":
        # reject fault: a further input of the same key with a different duration must be refused and leave nothing behind
        L_ = cfg["L"] + r.choice([1, 2, -1]) if (ref.externals.get("i") and r.random() < 0.08 and cfg["L"] > 2) else cfg["L"]
        op = {"op": "stimulate", "view": gen_node_view(r, ref), "len": L_, "seed": seed,
              "two_d": r.random() < 0.35, "pattern": r.choice([None, None, "step"]), "bad_batch": r.random() < 0.03}
        if r.random() < 0.12:
            op["ints"] = True  # integer-typed array (rounds to a placeholder of zeros at these amplitudes)
        return op
    if kind == "clamp":
        if ref.syns and r.random() < cfg.get("p_syn_clamp", 0.0):
            cands = [(s_["name"], k) for s_ in ref.syns for k in s_["states"]]
            if cands:
                syn, st = r.choice(cands)
                return {"op": "clamp", "view": gen_edge_view(r, ref, syn), "state": st, "len": cfg["L"], "seed": seed, "two_d": r.random() < 0.3}
        states = ["v"]
        for name, c in ref.chans.items():
            states += list(c["states"])
        st = r.choice(states)
        own = owner_channel(ref, st)
        view = gen_node_view(r, ref, prefer=("channel", own) if own else None)
        if own is None and r.random() < 0.7:
            view = [["select_nodes", idx(r, 2, forms=("int", "list"))]]
        op = {"op": "clamp", "view": view, "state": st, "len": cfg["L"], "seed": seed, "two_d": r.random() < 0.3}
        if r.random() < 0.1:
            op["ints"] = True  # integer-typed clamp values (-60 mV, gates at 0 / 1)
        return op
    if kind == "delete_stimuli":
        return {"op": "delete_stimuli", "view": gen_node_view(r, ref) if r.random() < 0.6 else []}
    if kind == "delete_clamps":
        keys = [k for k in ref.externals if k != "i"]
        return {"op": "delete_clamps", "view": gen_node_view(r, ref) if r.random() < 0.6 else [],
                "state": r.choice(keys) if keys and r.random() < 0.6 else None}
    if kind == "make_trainable":
        if ref.edges and r.random() < 0.3:
            key = r.choice(ref.edge_columns())
            syn = [s["name"] for s in ref.syns if key in s["params"] or key in s["states"]][0]
            view = gen_edge_view(r, ref, syn) if r.random() < 0.85 else []  # [] = on the network itself
        else:
            key = r.choice(settable_keys(ref))
            own = owner_channel(ref, key)
            view = gen_node_view(r, ref, prefer=("channel", own) if own and r.random() < 0.4 else None)
        # "badlist": a list init_val of the wrong length — must be refused and leave nothing behind
        return {"op": "make_trainable", "view": view, "key": key, "init": r.choice([None, None, None, "float", "float", "list", "list", "badlist", "zero"]), "seed": seed}
    if kind == "delete_trainables":
        k = r.random()
        if k < 0.5 and any(t["key"] in ref.cols for t in ref.trainables) and any(t["key"] not in ref.cols for t in ref.trainables):
            # compartment *and* synaptic trainables present: deleting through a view must sort them by what they index
            k = 0.5 + 0.5 * r.random()
        if k < 0.5:
            return {"op": "delete_trainables", "view": []}
        if ref.edges and k < 0.65:
            return {"op": "delete_trainables", "view": gen_edge_view(r, ref)}
        return {"op": "delete_trainables", "view": gen_node_view(r, ref)}
    if kind == "connect":
        cls = r.choice(cfg["synapses"])
        name = (cls[:4] + "B" if r.random() < 0.5 else cls[:3].lower() + "_syn") if r.random() < 0.2 else None  # "<name>_<param>" keys with an underscore in the name
        op = {"op": "connect", "pre": r.randrange(1 << 16), "post": r.randrange(1 << 16), "cls": cls, "name": name}
        if r.random() < 0.15:
            k_ = r.randint(2, 3)
            op["pre_k"], op["post_k"] = k_, (k_ if r.random() < 0.6 else r.choice([1, k_ + 1]))  # unequal: must be refused
        return op
    if kind == "init_states":
        return {"op": "init_states"}
    if kind == "move":
        return {"op": "move", "view": gen_node_view(r, ref), "xyz": [round(r.uniform(-50, 50), 3) for _ in range(3)]}
    return None


def gen_record(r, ref):
    k = r.random()
    cands = []
    for name, c in ref.chans.items():
        for s in c["states"]:
            cands.append((s, name))
        cands.append((c["current"], name))
    if ref.syns and k < 0.3:
        s = r.choice(ref.syns)
        st = r.choice(list(s["states"]) + [f"i_{s['name']}"])
        view = [["syn", s["name"]]] if r.random() < 0.5 else gen_edge_view(r, ref, s["name"])
        return {"op": "record", "view": view, "state": st}
    if cands and k < 0.65:
        st, own = r.choice(cands)
        return {"op": "record", "view": gen_node_view(r, ref, prefer=("channel", own)), "state": st}
    if r.random() < 0.03:
        return {"op": "record", "view": [], "state": "no_such_state"}
    if r.random() < 0.03:
        return {"op": "record", "view": gen_node_view(r, ref), "state": "i"}  # the stimulus key is listed among the states but is none: must be refused
    return {"op": "record", "view": gen_node_view(r, ref), "state": "v"}


def _possible(kind, ref, cfg):
    if kind == "connect":
        return ref.kind == "network" and len(ref.edges) < cfg.get("max_edges", 8)
    if kind == "set_ncomp":
        return ref.kind in ("cell", "branch")
    if kind == "init_states":
        return bool(ref.chans)
    if kind == "delete_trainables":
        return bool(ref.trainables)
    if kind == "make_trainable":
        return len(ref.trainables) < 4
    if kind == "stimulate":
        return sum(len(v) for v in ref.externals.values()) < 8
    if kind == "clamp":
        return sum(len(v) for v in ref.externals.values()) < 8
    if kind == "record":
        return len(ref.recordings) < 24
    return True


def init_value_ops(r, ref):
    """Attributable initial values: every compartment gets distinct v / geometry."""
    ops = []
    for key in ["v"] + [k for k in BASE_PARAMS if r.random() < 0.8]:
        ops.append({"op": "set", "view": [], "key": key, "val": {"seed": r.randrange(1 << 30), "array": True}})
    if r.random() < 0.2:
        ops[0]["val"]["round"] = True  # whole millivolts (-55.0, -47.0 ...): the values people type, and where rate functions have 0/0
    return ops


def abstract_state(ref):
    """Coarse abstraction used to count distinct states reached."""
    chans = tuple(sorted((name, tuple(int(f) for f in fl)) for name, fl in ref.flags.items()))
    edges = tuple(sorted((s["name"], sum(1 for e in ref.edges if e["type"] == s["name"])) for s in ref.syns))
    return (ref.kind, tuple(ref.ncomp_per_branch), tuple(ref.parents), chans, edges, len(ref.recordings),
            tuple(sorted((k, len(v)) for k, v in ref.externals.items())), len(ref.trainables), tuple(sorted(ref.groups)))
