"""Process environment for every jxsim worker: import jaxley from the working tree, pin determinism knobs.

Must be imported before jax / jaxley anywhere in a worker process."""
import os
import sys
import warnings

REPO = os.environ.get("VERIF_REPO", "/repo")
VERIF = os.path.dirname(os.path.dirname(os.path.abspath(__file__)))

# Environment that child interpreters must be started with (see runner.spawn_env()).
PINNED_ENV = {
    "PYTHONHASHSEED": "0",
    "JAX_PLATFORMS": "cpu",
    "XLA_FLAGS": "--xla_cpu_multi_thread_eigen=false intra_op_parallelism_threads=1",
    "OMP_NUM_THREADS": "1",
    "OPENBLAS_NUM_THREADS": "1",
    "MKL_NUM_THREADS": "1",
    "JAX_ENABLE_X64": "1",
    "PYTHONDONTWRITEBYTECODE": "1",
    "MPLBACKEND": "Agg",
    "JAXLEY_VERIF": "1",
    # keep JAX's internal frames in tracebacks: the harness classifies an exception by its innermost frame
    # (inside /verif = harness error, anywhere else = behaviour of the system under test)
    "JAX_TRACEBACK_FILTERING": "off",
}

_ready = False


def setup():
    """Idempotent: put the repository first on sys.path, configure JAX, silence chatter."""
    global _ready
    if _ready:
        return
    for k, v in PINNED_ENV.items():
        if k == "PYTHONHASHSEED":
            continue  # only effective at interpreter start; runner sets it for children
        os.environ.setdefault(k, v)
    if REPO in sys.path:
        sys.path.remove(REPO)
    sys.path.insert(0, REPO)
    if VERIF not in sys.path:
        sys.path.insert(1, VERIF)
    warnings.filterwarnings("ignore")
    import jax

    jax.config.update("jax_enable_x64", True)
    jax.config.update("jax_platform_name", "cpu")
    cache = os.environ.get("JXSIM_XLA_CACHE", os.path.join(VERIF, ".work", "xla_cache"))
    if cache != "off":
        # persistent XLA compilation cache: a pure speed-up (same HLO -> same executable), shared by all workers
        try:
            os.makedirs(cache, exist_ok=True)
            jax.config.update("jax_compilation_cache_dir", cache)
            jax.config.update("jax_persistent_cache_min_compile_time_secs", 0)
            jax.config.update("jax_persistent_cache_min_entry_size_bytes", -1)
            # (jax_compilation_cache_max_size is NOT set: its LRU implementation needs the `filelock` package, which is
            #  not installed, and JAX then silently disables the cache; runner.prune_xla_cache() bounds the directory)
        except Exception:  # noqa: BLE001
            pass
    import jaxley  # noqa: F401

    src = os.path.realpath(jaxley.__file__)
    if not src.startswith(os.path.realpath(REPO) + os.sep):
        raise RuntimeError(f"jaxley imported from {src}, expected under {REPO}")
    import pandas as pd

    pd.options.mode.chained_assignment = None
    _ready = True
