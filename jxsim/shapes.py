"""Random irregular morphologies (shape part of a program) and their shrinking candidates."""
import copy


def _share(r):
    return r.choice(["all", "all", "all", "comp", "comp", "none"])


def gen_cell(r, max_branches=5, max_ncomp=4, uniform_ncomp=None):
    nb = r.randint(1, max_branches)
    parents = [-1] + [r.randint(0, i - 1) for i in range(1, nb)]
    if uniform_ncomp is not None:
        ncomp = [uniform_ncomp] * nb
    else:
        ncomp = [r.randint(1, max_ncomp) for _ in range(nb)]
    cell = {"parents": parents, "ncomp": ncomp}
    if r.random() < 0.2:
        # channels inserted at Branch level before assembly, on some branches only
        pool = ["HH", "Leak", "Na", "K", "Km", "CaL", "CaT"]
        pre = {}
        for b in range(nb):
            if r.random() < 0.45:
                pre[str(b)] = r.sample(pool, r.randint(1, 2))
        if pre:
            cell["pre"] = pre
    return cell


def gen_network_shape(r, ncells, max_branches=4, max_ncomp=3, same_layout=False):
    """same_layout=True: all cells get one ncomp value (accepted by the jaxley.* solvers);
    otherwise irregular (only jax.sparse is guaranteed to accept)."""
    k = r.randint(1, max_ncomp) if same_layout else None
    cells = [gen_cell(r, max_branches, max_ncomp, uniform_ncomp=k) for _ in range(ncells)]
    if ncells > 1 and r.random() < 0.25:
        # identical cells: with share="all" the very same Cell object is listed several times
        src = r.randrange(ncells)
        for j in range(ncells):
            if r.random() < 0.5:
                cells[j] = copy.deepcopy(cells[src])
    return {"kind": "network", "cells": cells, "share": _share(r)}


def gen_cell_shape(r, max_branches=6, max_ncomp=4):
    return {"kind": "cell", "cells": [gen_cell(r, max_branches, max_ncomp)], "share": _share(r)}


def gen_any_shape(r, max_cells=3, max_branches=4, max_ncomp=3):
    k = r.random()
    if k < 0.45:
        return gen_cell_shape(r, max_branches + 1, max_ncomp + 1)
    if k < 0.5:
        return {"kind": "branch", "cells": [{"parents": [-1], "ncomp": [r.randint(1, 4)]}], "share": _share(r)}
    if k < 0.53:
        return {"kind": "compartment", "cells": [{"parents": [-1], "ncomp": [1]}]}
    return gen_network_shape(r, r.randint(2, max_cells), max_branches, max_ncomp, same_layout=r.random() < 0.5)


def ncomps(shape):
    return sum(sum(c["ncomp"]) for c in shape["cells"])


def shrink_shape(shape):
    """Smaller shapes: drop last cell, drop a leaf branch, reduce an ncomp, un-share."""
    if shape["kind"] in ("compartment", "swc"):
        return
    cells = shape["cells"]
    if shape["kind"] == "network" and len(cells) > 1:
        for i in range(len(cells) - 1, -1, -1):
            s = copy.deepcopy(shape)
            del s["cells"][i]
            yield s
    for ci, c in enumerate(cells):
        nb = len(c["ncomp"])
        if shape["kind"] != "branch":
            for b in range(nb - 1, 0, -1):
                if b not in c["parents"]:  # leaf
                    s = copy.deepcopy(shape)
                    cc = s["cells"][ci]
                    cc.pop("pre", None)
                    del cc["ncomp"][b]
                    del cc["parents"][b]
                    cc["parents"] = [p if p < b else p - 1 for p in cc["parents"]]
                    yield s
        for b in range(nb):
            if c["ncomp"][b] > 1:
                s = copy.deepcopy(shape)
                s["cells"][ci]["ncomp"][b] -= 1
                yield s
    for ci, c in enumerate(cells):
        if c.get("pre"):
            s = copy.deepcopy(shape)
            s["cells"][ci].pop("pre")
            yield s
    if shape.get("share") not in ("all", True, None):
        s = copy.deepcopy(shape)
        s["share"] = "all"
        yield s
