"""Developer self-tests (not registered checks).

  python -m jxsim.selftest determinism [--props C06,C07,...] [--runs 16] [--seed 0]
      every run index is executed in several fresh interpreters: PYTHONHASHSEED 0 / 4242 / 7, 1 / 4 / 16 workers,
      XLA compilation cache on / off; all final event-chain digests (and violation lists) must agree.

  python -m jxsim.selftest sensitivity [--only F7,F8,...] [--runs N]
      every `fix:` commit of /repo is reverted in a scratch worktree (outside /repo and /verif, removed afterwards)
      and the check of its property must report a VIOLATION there within the quick budget (VERIF_REPO points at it).
"""
import argparse
import json
import os
import shutil
import subprocess
import sys
import tempfile
import time

VERIF = os.path.dirname(os.path.dirname(os.path.abspath(__file__)))
sys.path.insert(0, VERIF)
from jxsim.runner import PY, child_env  # noqa: E402

ALL = ["C06", "C07", "C08", "C09", "C10", "C11", "C13", "C18", "C19", "C20"]


def run_workers(prop, seed, nruns, workers, hashseed, cache, tag, tmp):
    env = child_env()
    env["PYTHONHASHSEED"] = str(hashseed)
    if not cache:
        env["JXSIM_XLA_CACHE"] = "off"
    procs = []
    for w in range(workers):
        of = os.path.join(tmp, f"{prop}-{tag}-w{w}.jsonl")
        p = subprocess.Popen([PY, "-m", "jxsim.worker", prop, "quick", str(seed), str(w), str(workers), str(nruns), of],
                             env=env, cwd=VERIF, stdout=subprocess.DEVNULL, stderr=subprocess.DEVNULL)
        procs.append((p, of))
    out = {}
    for p, of in procs:
        p.wait()
        for line in open(of):
            r = json.loads(line)
            if "res" in r:
                res = r["res"]
                out[r["i"]] = (res.get("digest"), json.dumps([(v["oracle"], v["message"]) for v in res.get("violations", [])]),
                               res.get("harness_error") is not None)
    return out


def determinism(props, nruns, seed):
    tmp = tempfile.mkdtemp(prefix="jxsim_det_")
    bad = 0
    configs = [("h0-w1", 1, 0, True), ("h4242-w4", 4, 4242, True), ("h7-w16-nocache", 16, 7, False)]
    try:
        for prop in props:
            t0 = time.time()
            results = {}
            for tag, workers, hs, cache in configs:
                results[tag] = run_workers(prop, seed, nruns, workers, hs, cache, tag, tmp)
            ref = results[configs[0][0]]
            diverged = []
            for tag in results:
                for i in range(nruns):
                    if results[tag].get(i) != ref.get(i):
                        diverged.append((tag, i, results[tag].get(i), ref.get(i)))
            herr = sum(1 for i in ref if ref[i][2])
            print(f"[determinism] {prop}: {nruns} runs x {len(configs)} configurations, diverged={len(diverged)}, harness_errors={herr}, {time.time() - t0:.0f}s")
            for d in diverged[:5]:
                print("   DIVERGED", d)
            bad += len(diverged) + herr
    finally:
        shutil.rmtree(tmp, ignore_errors=True)
    return 1 if bad else 0


def fix_commits():
    """[(short sha, subject)] of the fix: commits in /repo, oldest first."""
    out = subprocess.run(["git", "-C", "/repo", "log", "--reverse", "--format=%h %s"], capture_output=True, text=True).stdout.splitlines()
    return [tuple(l.split(" ", 1)) for l in out if l.split(" ", 1)[1].startswith("fix:")]


# which check must notice the revert of which fix (by a word of the commit subject)
EXPECT = [
    ("sparse_connect", ["C20"]), ("fully_connect", ["C20"]), ("jaxley.stone/jaxley.thomas", ["C13", "C19"]),
    ("make_trainable padded", ["C10", "C19"]), ("delete_channel damaged", ["C19"]), ("delete_recordings on a view", ["C19"]),
    ("set_ncomp wrongly refused", ["C13"]), ("leaked tracers", ["C19", "C18"]), ("attribute views selected everything", ["C11"]),
    ("checkpoint_lengths raised", ["C07", "C06"]), ("recordings of synaptic states", ["C08", "C07"]), ("initial states of synapses", ["C10"]),
    ("set_ncomp left groups", ["C13"]), ("clamps of synaptic states", ["C08"]), ("jax.sparse ignored", ["C09", "C08", "C19"]),
    ("channel flag columns kept dtype object", ["C19", "C13"]),
    ("return_states returned a later state", ["C07"]), ("loc('all') used the locations", ["C11"]),
    ("views listed (and deleted) recordings of synaptic", ["C19", "C08"]), ("views ignored trainables", ["C19"]),
    ("parameters shared across the view boundary", ["C19"]), ("removable singularity", ["C19", "C08", "C18"]),
    ("data_set() with an array", ["C10"]), ("lost its parameter sharing", ["C19"]),
    ("not one entire branch", ["C13", "C19"]), ("left a broken synapse type behind", ["C19"]),
    ("record('i') was accepted", ["C19"]), ("left recordings, clamps and trainables of the removed channel", ["C19"]),
]


def sensitivity(only, runs):
    rc = 0
    commits = fix_commits()
    base = tempfile.mkdtemp(prefix="jxsim_sens_")
    try:
        for sha, subject in commits:
            exp = next((props for key, props in EXPECT if key in subject), None)
            if exp is None or (only and not any(o in subject for o in only)):
                continue
            wt = os.path.join(base, sha)
            subprocess.run(["git", "-C", "/repo", "worktree", "add", "-q", "--detach", wt, "HEAD"], check=True)
            try:
                r = subprocess.run(["git", "-C", wt, "revert", "--no-commit", sha], capture_output=True, text=True)
                if r.returncode != 0:
                    print(f"[sensitivity] {sha} cannot be reverted cleanly: {r.stderr[:200]}")
                    rc = 1
                    continue
                caught = []
                for prop in exp:
                    env = dict(os.environ, VERIF_REPO=wt, JXSIM_NO_SHRINK="1", JXSIM_OUT=base)
                    cmd = [PY, os.path.join(VERIF, "run_check.py"), prop, "--tier", "quick"] + (["--runs", str(runs)] if runs else [])
                    t0 = time.time()
                    out = subprocess.run(cmd, env=env, cwd=VERIF, capture_output=True, text=True).stdout
                    hit = "VIOLATION property=" in out
                    caught.append((prop, hit, round(time.time() - t0)))
                    if hit:
                        break
                ok = any(h for _, h, _ in caught)
                print(f"[sensitivity] revert {sha} ({subject[:70]}): {'CAUGHT' if ok else 'MISSED'} {caught}")
                if not ok:
                    rc = 1
            finally:
                subprocess.run(["git", "-C", "/repo", "worktree", "remove", "--force", wt])
    finally:
        shutil.rmtree(base, ignore_errors=True)
    return rc


def main():
    ap = argparse.ArgumentParser()
    ap.add_argument("what", choices=["determinism", "sensitivity"])
    ap.add_argument("--props", default=",".join(ALL))
    ap.add_argument("--runs", type=int, default=0)
    ap.add_argument("--seed", type=int, default=0)
    ap.add_argument("--only", default="")
    a = ap.parse_args()
    if a.what == "determinism":
        return determinism(a.props.split(","), a.runs or 16, a.seed)
    return sensitivity([x for x in a.only.split(",") if x], a.runs)


if __name__ == "__main__":
    sys.exit(main())
