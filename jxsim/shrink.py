"""Op-aware delta debugging of a failing program.

A candidate is kept iff executing it yields a violation with the *same oracle name*.  Passes:
(1) drop chunks, then single elements, of every list field the scenario declares (LIST_FIELDS);
(2) scenario-specific simplifications (drop faults / knobs / renames, shorten index lists);
(3) shrink the morphology.  Candidates of one round are evaluated in parallel in fresh worker
processes (spawned, pinned environment); the lowest-numbered successful candidate is taken, so the
result does not depend on timing."""
import copy
import json
import os
import subprocess
import sys
import tempfile
import time
from concurrent.futures import ThreadPoolExecutor

from .shapes import shrink_shape


def _exec_program(prop, program, timeout=300):
    from .runner import child_env, PY

    with tempfile.TemporaryDirectory(prefix="jxsim_shrink_") as d:
        pf, of = os.path.join(d, "p.json"), os.path.join(d, "o.json")
        json.dump(program, open(pf, "w"))
        try:
            subprocess.run([PY, "-m", "jxsim.worker", "--exec", prop, pf, of], env=child_env(), cwd=os.path.dirname(os.path.dirname(__file__)),
                           timeout=timeout, stdout=subprocess.DEVNULL, stderr=subprocess.DEVNULL)
            return json.load(open(of))
        except Exception:  # noqa: BLE001
            return None


class ExecPool:
    """Persistent executor processes (fresh interpreters, pinned environment) evaluating candidate programs."""

    def __init__(self, prop, size=12, timeout=400):
        from .runner import PY, child_env

        self.prop, self.size, self.timeout = prop, size, timeout
        self.cmd = [PY, "-m", "jxsim.worker", "--serve", prop]
        self.env = child_env()
        self.cwd = os.path.dirname(os.path.dirname(__file__))
        self.procs = [None] * size

    def _spawn(self, k):
        p = subprocess.Popen(self.cmd, env=self.env, cwd=self.cwd, stdin=subprocess.PIPE, stdout=subprocess.PIPE, stderr=subprocess.DEVNULL, text=True)
        line = p.stdout.readline()
        if not line or not json.loads(line).get("ready"):
            p.kill()
            return None
        self.procs[k] = p
        return p

    def _one(self, k, program):
        import threading

        p = self.procs[k] if self.procs[k] is not None and self.procs[k].poll() is None else self._spawn(k)
        if p is None:
            return None
        result = [None]

        def talk():
            try:
                p.stdin.write(json.dumps(program) + "\n")
                p.stdin.flush()
                line = p.stdout.readline()
                result[0] = json.loads(line) if line else None
            except Exception:  # noqa: BLE001
                result[0] = None

        t = threading.Thread(target=talk, daemon=True)
        t.start()
        t.join(self.timeout)
        if t.is_alive() or result[0] is None:
            try:
                p.kill()
            except Exception:  # noqa: BLE001
                pass
            self.procs[k] = None
            return None
        return result[0]

    def map(self, programs):
        with ThreadPoolExecutor(max_workers=self.size) as ex:
            futs = [ex.submit(self._one, i % self.size, q) for i, q in enumerate(programs[: self.size])]
            return [f.result() for f in futs]

    def close(self):
        for p in self.procs:
            if p is not None:
                try:
                    p.stdin.close()
                    p.kill()
                except Exception:  # noqa: BLE001
                    pass


def fails_same(res, oracle):
    return bool(res) and not res.get("harness_error") and any(v["oracle"] == oracle for v in res.get("violations", []))


def _candidates(sc, program):
    fields = getattr(sc, "LIST_FIELDS", [])
    for f in fields:
        lst = program.get(f) or []
        n = len(lst)
        chunk = n // 2
        while chunk >= 1:
            for start in range(0, n, chunk):
                q = copy.deepcopy(program)
                q[f] = lst[:start] + lst[start + chunk:]
                if len(q[f]) < n:
                    yield q
            chunk //= 2
    if hasattr(sc, "simplify"):
        yield from sc.simplify(program)
    if "shape" in program:
        for s in shrink_shape(program["shape"]):
            q = copy.deepcopy(program)
            q["shape"] = s
            yield q


def shrink(sc, prop, program, oracle, budget_s=150, parallel=12, log=None):
    t0 = time.time()
    best = program
    tried = 0
    improved = True
    seen = set()
    pool = ExecPool(prop, size=parallel)
    try:
        while improved and time.time() - t0 < budget_s:
            improved = False
            cands = []
            for q in _candidates(sc, best):
                key = json.dumps(q, sort_keys=True)
                if key in seen:
                    continue
                seen.add(key)
                cands.append(q)
            for start in range(0, len(cands), parallel):
                if time.time() - t0 > budget_s:
                    break
                batch = cands[start:start + parallel]
                results = pool.map(batch)
                tried += len(batch)
                hit = None
                for q, res in zip(batch, results):
                    if fails_same(res, oracle):
                        hit = q
                        break
                if hit is not None:
                    best = hit
                    improved = True
                    break
    finally:
        pool.close()
    if log is not None:
        log["shrink_candidates_tried"] = tried
        log["shrink_wall_s"] = round(time.time() - t0, 1)
    return best
