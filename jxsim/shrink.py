"""Op-aware delta debugging of a failing program.

A candidate is kept iff executing it yields a violation with the *same oracle name*.  Passes:
(1) drop chunks, then single elements, of every list field the scenario declares (LIST_FIELDS);
(2) scenario-specific simplifications (drop faults / knobs / renames, shorten index lists);
(3) shrink the morphology.  Candidates of one round are evaluated in parallel in fresh worker
processes (spawned, pinned environment); the lowest-numbered successful candidate is taken, so the
result does not depend on timing."""
import copy
import json
import os
import subprocess
import sys
import tempfile
import time
from concurrent.futures import ThreadPoolExecutor

from .shapes import shrink_shape


def _exec_program(prop, program, timeout=300):
    from .runner import child_env, PY

    with tempfile.TemporaryDirectory(prefix="jxsim_shrink_") as d:
        pf, of = os.path.join(d, "p.json"), os.path.join(d, "o.json")
        json.dump(program, open(pf, "w"))
        try:
            subprocess.run([PY, "-m", "jxsim.worker", "--exec", prop, pf, of], env=child_env(), cwd=os.path.dirname(os.path.dirname(__file__)),
                           timeout=timeout, stdout=subprocess.DEVNULL, stderr=subprocess.DEVNULL)
            return json.load(open(of))
        except Exception:  # noqa: BLE001
            return None


def fails_same(res, oracle):
    return bool(res) and not res.get("harness_error") and any(v["oracle"] == oracle for v in res.get("violations", []))


def _candidates(sc, program):
    fields = getattr(sc, "LIST_FIELDS", [])
    for f in fields:
        lst = program.get(f) or []
        n = len(lst)
        chunk = n // 2
        while chunk >= 1:
            for start in range(0, n, chunk):
                q = copy.deepcopy(program)
                q[f] = lst[:start] + lst[start + chunk:]
                if len(q[f]) < n:
                    yield q
            chunk //= 2
    if hasattr(sc, "simplify"):
        yield from sc.simplify(program)
    if "shape" in program:
        for s in shrink_shape(program["shape"]):
            q = copy.deepcopy(program)
            q["shape"] = s
            yield q


def shrink(sc, prop, program, oracle, budget_s=150, parallel=12, log=None):
    t0 = time.time()
    best = program
    tried = 0
    improved = True
    seen = set()
    while improved and time.time() - t0 < budget_s:
        improved = False
        cands = []
        for q in _candidates(sc, best):
            key = json.dumps(q, sort_keys=True)
            if key in seen:
                continue
            seen.add(key)
            cands.append(q)
        for start in range(0, len(cands), parallel):
            if time.time() - t0 > budget_s:
                break
            batch = cands[start:start + parallel]
            with ThreadPoolExecutor(max_workers=parallel) as ex:
                results = list(ex.map(lambda q: _exec_program(prop, q), batch))
            tried += len(batch)
            hit = None
            for q, res in zip(batch, results):
                if fails_same(res, oracle):
                    hit = q
                    break
            if hit is not None:
                best = hit
                improved = True
                break
    if log is not None:
        log["shrink_candidates_tried"] = tried
        log["shrink_wall_s"] = round(time.time() - t0, 1)
    return best
