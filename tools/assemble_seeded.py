#!/venv/bin/python
"""Collects confirmed seeded changes into /verif/seeded/<id>/ (patch.diff, demo.py, NOTES.md, meta.json).

Inputs: /tmp/mut/<P>/mutants/<m>/ (sub-agent output), /tmp/mut/confirm/<P>-<m>.log (my confirmation run: demo before/after,
117 baseline tests with the change applied), and the detection table passed on the command line as JSON
{id: {"caught_by": [...], "missed_by": [...], "note": "..."}}."""
import json
import os
import re
import shutil
import sys

table = json.load(open(sys.argv[1]))
out = "/verif/seeded"
for mid, info in sorted(table.items()):
    parts = mid.split("-")
    P, m = parts[-2], parts[-1]
    src = info.get("src") or f"/tmp/mut/{P}/mutants/{m}"
    log = info.get("log") or f"/tmp/mut/confirm/{mid}.log"
    if not os.path.exists(os.path.join(src, "patch.diff")) or not os.path.exists(log):
        print("skip (missing)", mid)
        continue
    txt = open(log).read()
    demo0 = re.search(r"demo unmodified exit (\d+)", txt)
    demo1 = re.search(r"demo patched exit (\d+)", txt)
    tests = re.findall(r"(\d+) passed", txt)
    failed = re.findall(r"(\d+) failed", txt)
    ok = demo0 and demo1 and demo0.group(1) == "0" and demo1.group(1) == "1" and tests and int(tests[-1]) == 117 and not failed
    if not ok:
        print("NOT CONFIRMED", mid, demo0 and demo0.group(1), demo1 and demo1.group(1), tests, failed)
        continue
    d = os.path.join(out, mid)
    os.makedirs(d, exist_ok=True)
    for f in ("patch.diff", "demo.py", "NOTES.md"):
        shutil.copy(os.path.join(src, f), os.path.join(d, f))
    notes = open(os.path.join(src, "NOTES.md")).read()
    meta = {
        "id": mid,
        "property": P,
        "breaks": info.get("breaks", ""),
        "needs_to_manifest": info.get("needs", ""),
        "origin": "written by an independent sub-agent that saw only the property text and its own scratch worktree (nothing from /verif)",
        "base_commit": info.get("base", "HEAD of /repo at evaluation time"),
        "confirmed": {
            "how": "scratch worktree of /repo HEAD under /tmp (removed afterwards): demo.py on the unmodified tree, git apply patch.diff, demo.py again, "
                   "then the 117 baseline tests (pytest -n 5 with the node ids of /root/.vp/BASELINE.json stable_pass)",
            "demo_unmodified_exit": int(demo0.group(1)),
            "demo_patched_exit": int(demo1.group(1)),
            "baseline_tests_passed_with_change": int(tests[-1]),
        },
        "checks_run": "tools/eval_mutant.py <patch> --props <ids> (quick tier, VERIF_SEED=0, scratch worktree via VERIF_REPO; evidence redirected with JXSIM_OUT)",
        "caught_by": info.get("caught_by", []),
        "missed_by": info.get("missed_by", []),
        "first_violation": info.get("first_violation", ""),
        "note": info.get("note", ""),
    }
    json.dump(meta, open(os.path.join(d, "meta.json"), "w"), indent=1)
    print("kept", mid)
