#!/venv/bin/python
"""Evaluate a seeded change: apply <patch.diff> to a scratch worktree of /repo (outside /repo and /verif), run the given
checks against it (VERIF_REPO), print one line per check, remove the worktree.  Evidence / replays of these runs go to a
scratch directory (JXSIM_OUT), never to /verif/evidence.

  tools/eval_mutant.py <patch.diff> --props C07,C19 [--tier quick] [--runs N] [--demo demo.py] [--keep-replay DIR]
"""
import argparse
import os
import shutil
import subprocess
import sys
import tempfile
import time

VERIF = os.path.dirname(os.path.dirname(os.path.abspath(__file__)))


def main():
    ap = argparse.ArgumentParser()
    ap.add_argument("patch")
    ap.add_argument("--props", required=True)
    ap.add_argument("--tier", default="quick")
    ap.add_argument("--runs", type=int, default=0)
    ap.add_argument("--seed", type=int, default=0)
    ap.add_argument("--demo", default=None)
    ap.add_argument("--keep-replay", default=None)
    ap.add_argument("--shrink", action="store_true")
    ap.add_argument("--base", default="HEAD", help="commit of /repo the change is applied to (default HEAD)")
    a = ap.parse_args()
    base = tempfile.mkdtemp(prefix="jxsim_mut_")
    wt = os.path.join(base, "wt")
    subprocess.run(["git", "-C", "/repo", "worktree", "add", "-q", "--detach", wt, a.base], check=True)
    rc = 0
    try:
        if a.demo:
            r0 = subprocess.run(["/venv/bin/python", a.demo], env=dict(os.environ, JAXLEY_SRC=wt, PYTHONPATH=wt), capture_output=True, text=True, cwd=wt)
            print(f"[demo] unmodified: exit {r0.returncode} {r0.stdout.strip().splitlines()[-1:]}")
        r = subprocess.run(["git", "-C", wt, "apply", os.path.abspath(a.patch)], capture_output=True, text=True)
        if r.returncode != 0:
            print("patch does not apply:", r.stderr[:300])
            return 2
        if a.demo:
            r1 = subprocess.run(["/venv/bin/python", a.demo], env=dict(os.environ, JAXLEY_SRC=wt, PYTHONPATH=wt), capture_output=True, text=True, cwd=wt)
            print(f"[demo] patched:    exit {r1.returncode} {r1.stdout.strip().splitlines()[-1:]}")
        for prop in a.props.split(","):
            env = dict(os.environ, VERIF_REPO=wt, JXSIM_OUT=base, VERIF_SEED=str(a.seed))
            if not a.shrink:
                env["JXSIM_NO_SHRINK"] = "1"
            cmd = ["/venv/bin/python", os.path.join(VERIF, "run_check.py"), prop, "--tier", a.tier] + (["--runs", str(a.runs)] if a.runs else [])
            t0 = time.time()
            out = subprocess.run(cmd, env=env, cwd=VERIF, capture_output=True, text=True).stdout
            lines = [l for l in out.splitlines() if l.startswith(("[", "first violation", "VIOLATION", "HARNESS", "KNOWN"))]
            verdict = "CAUGHT" if "VIOLATION property=" in out else ("HARNESS-ERROR" if "HARNESS-ERROR" in out else "missed")
            print(f"[{prop}] {verdict} in {time.time() - t0:.0f}s")
            for l in lines[:4]:
                print("    " + l[:500])
            if verdict == "CAUGHT" and a.keep_replay:
                os.makedirs(a.keep_replay, exist_ok=True)
                for f in os.listdir(os.path.join(base, "replays")):
                    shutil.copy(os.path.join(base, "replays", f), a.keep_replay)
    finally:
        subprocess.run(["git", "-C", "/repo", "worktree", "remove", "--force", wt])
        shutil.rmtree(base, ignore_errors=True)
    return rc


if __name__ == "__main__":
    sys.exit(main())
