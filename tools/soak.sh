#!/bin/bash
# Long soak of every check (thorough tier generators) with a chosen batch seed; prints one summary line per property.
# usage: tools/soak.sh <seed> [workers]   (run through `vp run` from a snapshot; evidence of these runs is not committed)
SEED=${1:-11}; W=${2:-8}
declare -A N=( [C06]=800 [C07]=300 [C08]=1000 [C09]=800 [C10]=600 [C11]=5000 [C13]=500 [C18]=800 [C19]=1200 [C20]=6000 )
for p in ${SOAK_ORDER:-C20 C11 C08 C09 C19 C10 C18 C06 C13 C07}; do
  JXSIM_WORKERS=$W JXSIM_NO_SHRINK=1 JXSIM_OUT=$PWD/.work/soak-$SEED /venv/bin/python run_check.py $p --tier thorough --runs ${N[$p]} --seed $SEED 2>&1 | grep -E "^\[C|VIOLATION|HARNESS|first|KNOWN" | cut -c1-400
done
