#!/venv/bin/python
"""Regenerates /verif/MANIFEST.json from the table below (developer tool; validates against the schema)."""
import json
import os

HERE = os.path.dirname(os.path.dirname(os.path.abspath(__file__)))
NA = {
 "C01": "Pure function of (morphology, parameters, dt, solver, backend): no history, schedule, clock, fault or nondeterminism in the statement; checking it is input generation against a linear-algebra oracle, not simulation (DESIGN.md section 4). Collateral only: the solvers run under C19/C13's RefSim oracle.",
 "C02": "Algebraic identities of one linear solve for all inputs and all dt up to 1e9; nothing for a scheduler or fault injector to vary.",
 "C03": "Pure scalar functions of (v, dt, state) quantified over every double in a range; no schedule, fault or history dimension.",
 "C04": "Equality of formulas with the literature for all v and parameters: a pure function with no schedule, clock or fault.",
 "C05": "Derivative of a pure function against finite differences over inputs/configurations; no history or fault dimension (C18 compares gradients of a module and its restored copy only).",
 "C12": "Pure function of the constituents and their order; no history or fault in the statement (assembly runs under C19's oracles as collateral only).",
 "C14": "Fixed-point property of scalar formulas for all v and parameters; pure.",
 "C15": "Statement about limits of refinement ladders of a deterministic computation; no schedule or fault.",
 "C16": "Property is restricted to well-formed files read in one np.loadtxt call: a pure function of the file text; torn/failing reads are outside the statement.",
 "C17": "Pure scalar mathematics for all real x.",
}
CHECKS = {}


def check(pid, category, text, note, technique, ref):
    CHECKS[pid] = {
        "property_id": pid,
        "quick_cmd": f"/venv/bin/python run_check.py {pid} --tier quick",
        "thorough_cmd": f"/venv/bin/python run_check.py {pid} --tier thorough",
        "evidence_file": f"/verif/evidence/{pid}.json",
        "replay_cmd_template": f"/venv/bin/python run_check.py {pid} --replay {{path}}",
        "engine": "jxsim",
        "level_claimed": {"category": category, "text": text, "design_ref": ref},
        "level_note": note,
        "technique": technique,
    }


exec(open(os.path.join(HERE, "tools", "checks_table.py")).read())

registered = sorted(CHECKS)
pending = [p for p in ["C06", "C07", "C08", "C09", "C10", "C11", "C13", "C18", "C19", "C20"] if p not in CHECKS]
na = [{"property_id": k, "reason": v} for k, v in NA.items()]
na += [{"property_id": p, "reason": "Claim planned (DESIGN.md section 4); its check is not registered in this commit (scenario not yet built or not yet soaked), so nothing is claimed for it here."} for p in pending]
m = {
    "version": 1,
    "setup_cmd": "/venv/bin/python -c \"import jax, pandas, numpy, jaxley; print('ok', jaxley.__file__)\"",
    "hooks": {"guard": "JAXLEY_VERIF",
              "enable": "no hooks exist in /repo: every seam (global NumPy RNG, in-memory file objects, pickle buffer, abort points inside integrate, execution knobs) is reached by arguments or monkeypatching from /verif; JAXLEY_VERIF=1 is exported by the workers but read by nothing in /repo",
              "baseline_off_cmd": "cd /repo && /venv/bin/python -m pytest -ra -q -p no:cacheprovider --timeout=900 --continue-on-collection-errors",
              "source_commits": [], "add_only": True},
    "engines": [{"name": "jxsim", "path": "/verif/jxsim", "serves_properties": registered,
                 "kind_free_text": "deterministic simulation with fault injection: seeded program generator, real jaxley executed in lock-step with a plain-Python reference model (RefModule), canonical twin and independent dense reference simulator (RefSim) as oracles, fault kinds restart/persist/reject/abort/rng/reorder/knob, op-aware delta debugging, replay files"}],
    "checks": [CHECKS[p] for p in registered],
    "not_applicable": na,
    "notes": "See DESIGN.md. Exit codes of every check: 0 held (KNOWN-FINDING lines allowed), 1 VIOLATION (with replay file), 2 harness error / watchdog. known_findings.json is read-only at run time.",
}
json.dump(m, open(os.path.join(HERE, "MANIFEST.json"), "w"), indent=1)
import jsonschema

jsonschema.validate(m, json.load(open("/root/.vp/MANIFEST.schema.json")))
print("MANIFEST.json written:", registered, "pending:", pending)
