#!/venv/bin/python
"""Single entry point of the jaxley verification machinery.

  run_check.py <Cxx> [--tier quick|thorough] [--seed N] [--runs N] [--replay file]

VERIF_SEED / VERIF_TIER / VERIF_REPO are honoured (command-line flags win)."""
import argparse
import os
import sys

HERE = os.path.dirname(os.path.abspath(__file__))
sys.path.insert(0, HERE)


def main():
    ap = argparse.ArgumentParser()
    ap.add_argument("prop")
    ap.add_argument("--tier", default=os.environ.get("VERIF_TIER") or "quick", choices=["quick", "thorough"])
    ap.add_argument("--seed", type=int, default=int(os.environ.get("VERIF_SEED") or 0))
    ap.add_argument("--runs", type=int, default=None)
    ap.add_argument("--workers", type=int, default=None)
    ap.add_argument("--replay", default=None)
    a = ap.parse_args()
    from jxsim import runner

    if a.replay:
        return runner.replay(a.prop.upper(), a.replay)
    return runner.run_batch(a.prop.upper(), a.tier, a.seed, nruns=a.runs, workers=a.workers)


if __name__ == "__main__":
    try:
        rc = main()
    except SystemExit:
        raise
    except BaseException as e:  # noqa: BLE001
        import traceback

        traceback.print_exc()
        print("HARNESS-ERROR:", type(e).__name__, e)
        rc = 2
    sys.exit(rc)
