import time, sys, warnings
import jax
jax.config.update("jax_enable_x64", True)
jax.config.update("jax_platform_name", "cpu")
import numpy as np, jax.numpy as jnp
import jaxley as jx
from jaxley.channels import HH, Leak, Na, K, Km, CaL, CaT
from jaxley.synapses import IonotropicSynapse, TestSynapse, TanhRateSynapse
from jaxley.connect import fully_connect, sparse_connect, connectivity_matrix_connect, connect

print("== F2: -1 padding")
comp = jx.Compartment()
cell = jx.Cell([jx.Branch(comp, ncomp=k) for k in [3,1,2]], parents=[-1,0,0])
cell.branch([0,1]).make_trainable("radius", verbose=False)   # groups of size 3 and 1; last comp (idx5) not in selection
print(cell.indices_set_by_trainables)
cell.to_jax()
from jaxley.utils.cell_utils import params_to_pstate
params=[{"radius": jnp.asarray([2.0, 3.0])}]
ps = params_to_pstate(params, cell.indices_set_by_trainables)
print(cell.get_all_parameters(ps, "jaxley.stone")["radius"])

print("== F3: Km/CaT init")
for ch in [HH(), Na(), K(), Km(), CaL(), CaT()]:
    c = jx.Compartment(); c.insert(ch); c.set("v", -50.0); c.init_states()
    st = {k: jnp.asarray(c.nodes[k].to_numpy()) for k in ch.channel_states}
    pr = {k: jnp.asarray(c.nodes[k].to_numpy()) for k in ch.channel_params}
    new = ch.update_states(st, 10.0, jnp.asarray([-50.0]), pr)
    print(ch._name, {k:(float(st[k][0]), float(new[k][0])) for k in st})

print("== F4: NaN at singular voltages")
print(HH.m_gate(jnp.asarray(-40.0)), HH.n_gate(jnp.asarray(-55.0)), Na.m_gate(jnp.asarray(-47.0), -60.0), K.n_gate(jnp.asarray(-45.0), -60.0), CaL.q_gate(jnp.asarray(-27.0)))

print("== F11 softplus")
from jaxley.optimize.transforms import SoftplusTransform
t = SoftplusTransform(0.0); print(t.forward(t.inverse(50.0)), t.forward(100.0))
