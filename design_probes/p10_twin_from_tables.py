import sys, time, warnings, pickle; warnings.filterwarnings("ignore")
sys.path.insert(0,"/tmp/scratch/jx")
import jax; jax.config.update("jax_enable_x64", True); jax.config.update("jax_platform_name","cpu")
import numpy as np, jax.numpy as jnp, jaxley as jx
import jaxley.channels as C, jaxley.synapses as S
from jaxley.connect import connect

def twin_from_tables(m):
    """Canonical reconstruction from displayed tables only."""
    nd=m.nodes; par=np.asarray(m.comb_parents)
    comp=jx.Compartment()
    cells=[]
    for ci in sorted(nd.global_cell_index.unique()):
        sub=nd[nd.global_cell_index==ci]
        bidx=sorted(sub.global_branch_index.unique())
        branches=[jx.Branch([comp]*int((sub.global_branch_index==b).sum())) for b in bidx]
        p=[int(par[b]) for b in bidx]; off=bidx[0]
        p=[-1 if x==-1 else x-off for x in p]
        cells.append(jx.Cell(branches,parents=p))
    kind=type(m).__name__
    t=jx.Network(cells) if kind=="Network" else cells[0]
    for key in ["radius","length","axial_resistivity","capacitance","v"]:
        t.set(key, nd[key].to_numpy())
    for ch in m.channels:
        rows=nd.index[nd[ch._name].astype(bool)].to_numpy()
        cls=getattr(C,type(ch).__name__); inst=cls(ch._name) if ch._name!=type(ch).__name__ else cls()
        t.select(nodes=rows).insert(inst); v=t.select(nodes=rows)
        for k in list(inst.channel_params)+list(inst.channel_states):
            v.set(k, nd.loc[rows,k].to_numpy())
    ed=m.edges
    for e in ed.index:
        syn=[s for s in m.synapses if s._name==ed.loc[e,"type"]][0]
        cls=getattr(S,type(syn).__name__); inst=cls(syn._name) if syn._name!=type(syn).__name__ else cls()
        connect(t.select(nodes=[int(ed.loc[e,"pre_global_comp_index"])]), t.select(nodes=[int(ed.loc[e,"post_global_comp_index"])]), inst)
        for k in list(inst.synapse_params)+list(inst.synapse_states):
            t.select(edges=[e]).set(k, float(ed.loc[e,k]))
    comp_states,edge_states=m._get_state_names()
    for _,r in m.recordings.iterrows():
        if r.state in comp_states: t.select(nodes=[int(r.rec_index)]).record(r.state,verbose=False)
        else: t.select(edges=[int(r.rec_index)]).record(r.state,verbose=False)
    for key in m.externals:
        for arr,ind in zip(np.asarray(m.externals[key]), np.asarray(m.external_inds[key])):
            v=t.select(nodes=[int(ind)]) if key in comp_states else t.select(edges=[int(ind)])
            if key=="i": v.stimulate(jnp.asarray(arr),verbose=False)
            else: v.clamp(key,jnp.asarray(arr),verbose=False)
    return t

if __name__=='__main__':
    comp=jx.Compartment()
    c1=jx.Cell([jx.Branch(comp,ncomp=2) for _ in range(3)],parents=[-1,0,0]); c2=jx.Cell([jx.Branch(comp,ncomp=2) for _ in range(2)],parents=[-1,0])
    net=jx.Network([c1,c2,c1])
    rng=np.random.default_rng(3); n=len(net.nodes)
    net.cell(0).insert(C.HH()); net.cell(1).branch(0).insert(C.Na()); net.cell(1).insert(C.K()); net.cell(2).insert(C.Leak()); net.cell(2).branch(1).insert(C.HH("HHb"))
    net.set("v", rng.uniform(-75,-45,n)); net.set("radius", rng.uniform(0.5,3,n)); net.cell(1).set("length", 17.0); net.cell(0).branch(1).set("HH_gNa",0.2); net.cell(1).set("vt",-55.0)
    connect(net.cell(0).branch(0).comp(0), net.cell(1).branch(0).comp(1), S.IonotropicSynapse())
    connect(net.cell(1).branch(1).comp(0), net.cell(2).branch(0).comp(0), S.TestSynapse())
    connect(net.cell(2).branch(0).comp(1), net.cell(0).branch(2).comp(1), S.IonotropicSynapse())
    net.select(edges=[2]).set("IonotropicSynapse_gS",7e-3)
    net.cell(2).branch(2).comp(1).record("v",verbose=False); net.cell(0).record("HH_m",verbose=False); net.cell(1).branch(0).comp(0).record("i_Na",verbose=False)
    net.cell(0).branch(0).comp(0).stimulate(jnp.asarray(rng.uniform(0,1,10)),verbose=False)
    net.cell(2).branch(1).comp(0).clamp("HHb_m", jnp.asarray(rng.uniform(0,1,10)),verbose=False)
    t0=time.time(); tw=twin_from_tables(net); print("twin build",time.time()-t0)
    a=np.asarray(jx.integrate(net,delta_t=0.025)); b=np.asarray(jx.integrate(tw,delta_t=0.025))
    print(a.shape,b.shape,"max diff",np.abs(a-b).max(),"bitwise",np.array_equal(a,b))
    print(net.recordings.equals(tw.recordings), net.nodes.drop(columns=["controlled_by_param"]).sort_index(axis=1).equals(tw.nodes.drop(columns=["controlled_by_param"]).sort_index(axis=1)))
