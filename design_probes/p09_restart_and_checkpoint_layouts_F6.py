import sys, time, warnings, pickle; warnings.filterwarnings("ignore")
sys.path.insert(0,"/tmp/scratch/jx")
import jax; jax.config.update("jax_enable_x64", True); jax.config.update("jax_platform_name","cpu")
import numpy as np, jax.numpy as jnp, jaxley as jx
from jaxley.channels import HH
from jaxley.synapses import IonotropicSynapse
from jaxley.connect import connect
comp=jx.Compartment()
cell=jx.Cell([jx.Branch(comp,ncomp=2) for _ in range(3)],parents=[-1,0,0])
net=jx.Network([cell,cell]); net.insert(HH())
connect(net.cell(0).branch(0).comp(0), net.cell(1).branch(1).comp(1), IonotropicSynapse()); net.set("IonotropicSynapse_gS",5e-3)
net.record("v",verbose=False); net.record("HH_m",verbose=False); net.IonotropicSynapse.edge(0).record("IonotropicSynapse_s",verbose=False)
rng=np.random.default_rng(0)
N=12; stim=rng.uniform(-1,2,N)
tgt=net.cell(0).branch(0).comp(0)
def run(a,b,states=None,ck=None,ret=True):
    ds=tgt.data_stimulate(jnp.asarray(stim[a:b]),None)
    return jx.integrate(net,data_stimuli=ds,delta_t=0.025,all_states=states,return_states=ret,checkpoint_lengths=ck)
full,sf=run(0,N)
for n1 in [1,5,11]:
    r1,s1=run(0,n1)
    s1p=pickle.loads(pickle.dumps(jax.tree_util.tree_map(np.asarray,s1)))
    r2,s2=run(n1,N,states=s1p)
    cat=np.concatenate([np.asarray(r1),np.asarray(r2)[:,1:]],axis=1)
    print(n1,"max diff",np.abs(cat-np.asarray(full)).max(), "bitwise",np.array_equal(cat,np.asarray(full)), "final state eq", all(np.array_equal(np.asarray(sf[k]),np.asarray(s2[k])) for k in sf), "r2 col0 == r1 last", np.array_equal(np.asarray(r2)[:,0],np.asarray(r1)[:,-1]))
# checkpoint layouts
for ck in [[N],[3,4],[2,2,3],[4,4],[13]]:
    r,s=run(0,N,ck=ck)
    print(ck,"recs diff",np.abs(np.asarray(r)-np.asarray(full)).max(),"state v == last rec col:",np.allclose(np.asarray(s["v"]),np.asarray(r)[:12,-1]), "sf==s", np.allclose(np.asarray(sf["v"]),np.asarray(s["v"])))
# F6 signature: state equals run of prod steps with zero padded
r16,s16=jx.integrate(net,data_stimuli=tgt.data_stimulate(jnp.asarray(np.concatenate([stim,np.zeros(4)])),None),delta_t=0.025,return_states=True)
r,s=run(0,N,ck=[4,4]); print("F6 signature matches:", np.allclose(np.asarray(s["v"]),np.asarray(s16["v"])))
print(sorted(sf.keys()))
