import time, sys, warnings, io, contextlib, pickle, copy
warnings.filterwarnings("ignore")
import jax
jax.config.update("jax_enable_x64", True)
jax.config.update("jax_platform_name", "cpu")
import numpy as np, jax.numpy as jnp
import jaxley as jx
from jaxley.channels import HH, Leak, Na, K
from jaxley.synapses import IonotropicSynapse, TestSynapse, TanhRateSynapse
from jaxley.connect import connect

def T(label, f, n=1):
    t=time.time()
    for _ in range(n): r=f()
    print(f"{label}: {(time.time()-t)/n*1e3:.1f} ms"); return r

comp = jx.Compartment()
cells = [jx.Cell([jx.Branch(comp, ncomp=k) for k in nc], parents=p) for nc,p in [([2,2,2],[-1,0,0]),([2,2],[-1,0]),([2],[-1])]]
net = T("build net", lambda: jx.Network(cells))
T("view chain", lambda: net.cell(0).branch(1).comp(0), 5)
T("insert HH", lambda: net.cell(0).insert(HH()))
T("set", lambda: net.cell(1).set("radius", 2.0), 5)
connect(net.cell(0).branch(0).comp(0), net.cell(1).branch(0).comp(0), IonotropicSynapse())
connect(net.cell(1).branch(1).comp(1), net.cell(2).branch(0).comp(1), TestSynapse())
for sc in ["local","global"]:
    try:
        v = net.scope(sc).edge(0); print(sc, "edge(0) ok", v.edges.index.tolist(), v.nodes.index.tolist())
    except Exception as e: print(sc, "edge(0) ERR", repr(e)[:100])
net.cell(0).branch(0).comp(0).record("v", verbose=False)
net.cell(2).branch(0).comp(1).record("v", verbose=False)
net.cell(0).branch(0).comp(0).stimulate(jnp.ones(8)*0.1, verbose=False)
r = T("integrate eager 8 steps (first)", lambda: jx.integrate(net, delta_t=0.025))
r2 = T("integrate eager 8 steps (second)", lambda: jx.integrate(net, delta_t=0.025))
print("bit identical repeat:", bool(jnp.all(r==r2)))
f = jax.jit(lambda: jx.integrate(net, delta_t=0.025))
r3 = T("jit first", lambda: f()); T("jit second", lambda: f())
print("jit vs eager max diff", float(jnp.abs(r-r3).max()))
r4 = T("sparse", lambda: jx.integrate(net, delta_t=0.025, voltage_solver="jax.sparse"))
print("sparse vs stone", float(jnp.abs(r-r4).max()))
with jax.disable_jit():
    r5 = T("disable_jit", lambda: jx.integrate(net, delta_t=0.025))
print("nojit vs eager", float(jnp.abs(r-r5).max()))
T("pickle roundtrip", lambda: pickle.loads(pickle.dumps(net)))
T("deepcopy", lambda: copy.deepcopy(net))
init_fn, step_fn = jx.integrate.__globals__["build_init_and_step_fn"](net)
net.to_jax()
st, pr = T("init_fn", lambda: init_fn([], None, None, 0.025))
ext = {"i": jnp.asarray([0.1])}
def manual():
    s = dict(st)
    for k in range(8):
        s = step_fn(s, pr, ext, net.external_inds, 0.025)
    return s
s = T("manual 8 steps", manual)
print(float(s["v"][0]), float(r[0,-1]))
