import time, sys
t0=time.time()
import jax
jax.config.update("jax_enable_x64", True)
jax.config.update("jax_platform_name", "cpu")
import numpy as np, jax.numpy as jnp
import jaxley as jx
from jaxley.channels import HH, Leak
print("import", time.time()-t0, jx.__file__)

def dense_ref(cell, dt, i_ext=None):
    """independent bwd-euler one-step for passive (no channels) cell"""
    nodes = cell.nodes
    n = len(nodes)
    r = nodes.radius.to_numpy(); l = nodes.length.to_numpy(); ra = nodes.axial_resistivity.to_numpy(); cm = nodes.capacitance.to_numpy(); v = nodes.v.to_numpy()
    par = np.asarray(cell.comb_parents)
    ncb = np.asarray(cell.ncomp_per_branch); cs = np.concatenate([[0],np.cumsum(ncb)])
    # conductance graph in uS-like absolute units: half resistances
    # R_half = ra * (l/2) / (pi r^2)   [ohm cm * um / um^2] -> arbitrary consistent units
    Rh = ra*(l/2)/(np.pi*r**2)
    # nodes: comps 0..n-1, branchpoints per parent branch
    bps = sorted(set(p for p in par if p>=0))
    N = n+len(bps)
    G = np.zeros((N,N))
    def add(a,b,g):
        G[a,a]+=g; G[b,b]+=g; G[a,b]-=g; G[b,a]-=g
    for b in range(len(par)):
        for k in range(cs[b], cs[b+1]-1):
            add(k,k+1,1/(Rh[k]+Rh[k+1]))
    for bi,p in enumerate(bps):
        add(cs[p+1]-1, n+bi, 1/Rh[cs[p+1]-1])
        for c in np.where(par==p)[0]:
            add(cs[c], n+bi, 1/Rh[cs[c]])
    # units: g in S*um/cm... convert: 1/(ohm cm * um/um^2) = S um /cm -> S*1e-4 ; area 2 pi r l um^2 = 1e-8 cm^2; C = cm uF/cm2*area
    # C dv/dt = -G v  => (uF) mV/ms = mA? keep: dv/dt [mV/ms] = -(G[S]*v[mV]) / C[uF] *1e3... S*mV = mA ; mA/uF = 1e3 V/s = 1e3 mV/ms
    Gs = G*1e-4
    area = 2*np.pi*r*l*1e-8
    C = np.concatenate([cm*area, np.zeros(len(bps))])
    A = np.diag(C) + dt*Gs*1e3
    rhs = C*np.concatenate([v,np.zeros(len(bps))])
    sol = np.linalg.solve(A, rhs)
    return sol[:n]

def make(parents, ncomps, seed=0):
    rng = np.random.default_rng(seed)
    comp = jx.Compartment()
    branches = [jx.Branch(comp, ncomp=k) for k in ncomps]
    cell = jx.Cell(branches, parents=parents)
    n = len(cell.nodes)
    cell.set("v", rng.uniform(-80,-40,n))
    cell.set("radius", rng.uniform(0.5,3,n))
    cell.set("length", rng.uniform(5,30,n))
    cell.set("axial_resistivity", rng.uniform(50,500,n))
    cell.record("v", verbose=False)
    return cell

for parents, ncomps in [([-1,0,0],[2,2,2]), ([-1,0,0],[3,1,2]), ([-1,0,0,1,1],[1,2,3,2,1]), ([-1,0,0,1,1],[2,1,3,1,2]), ([-1,0,1],[2,3,1])]:
    cell = make(parents, ncomps)
    ref = dense_ref(cell, 0.025)
    out = {}
    for vs in ["jaxley.stone","jaxley.thomas","jax.sparse"]:
        t=time.time()
        try:
            v = jx.integrate(cell, t_max=0.025, delta_t=0.025, voltage_solver=vs)
            out[vs] = (float(np.max(np.abs(np.asarray(v[:,1])-ref))), round(time.time()-t,2))
        except Exception as e:
            out[vs] = repr(e)[:80]
    print(parents, ncomps, out)
