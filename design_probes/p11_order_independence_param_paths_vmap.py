import sys, time, warnings, pickle, itertools; warnings.filterwarnings("ignore")
sys.path.insert(0,"/tmp/scratch/jx")
import jax; jax.config.update("jax_enable_x64", True); jax.config.update("jax_platform_name","cpu")
import numpy as np, jax.numpy as jnp, jaxley as jx
import jaxley.channels as C, jaxley.synapses as S
from jaxley.connect import connect
comp=jx.Compartment()
def mknet():
    c1=jx.Cell([jx.Branch(comp,ncomp=2) for _ in range(2)],parents=[-1,0])
    net=jx.Network([c1,c1,c1]); net.insert(C.HH())
    rng=np.random.default_rng(3); n=len(net.nodes)
    net.set("v", rng.uniform(-75,-45,n)); net.set("radius", rng.uniform(0.5,3,n))
    net.record("v",verbose=False)
    net.cell(0).branch(0).comp(0).stimulate(jnp.asarray(rng.uniform(0,1,10)),verbose=False)
    return net
edges=[(0,5,"I",3e-3),(4,9,"T",2e-3),(8,1,"I",5e-3),(2,5,"H",4e-3),(3,5,"I",1e-3),(5,5,"T",6e-3)]
mk={"I":S.IonotropicSynapse,"T":S.TestSynapse,"H":S.TanhRateSynapse}; gk={"I":"IonotropicSynapse_gS","T":"TestSynapse_gC","H":"TanhRateSynapse_gS"}
def run(order):
    net=mknet()
    for k in order:
        a,b,t,g=edges[k]
        connect(net.select(nodes=[a]),net.select(nodes=[b]),mk[t]())
        net.select(edges=[len(net.edges)-1]).set(gk[t],g)
    return np.asarray(jx.integrate(net,delta_t=0.025)), net
base,_=run(range(6))
for order in [[5,4,3,2,1,0],[1,0,3,2,5,4],[3,5,0,2,4,1]]:
    try:
        r,_=run(order); print(order,"max diff",np.abs(r-base).max())
    except Exception as e: print(order,"ERR",repr(e)[:150])
# zero conductance == alone
net=mknet()
for a,b,t,g in edges:
    connect(net.select(nodes=[a]),net.select(nodes=[b]),mk[t]())
for t in gk.values(): net.set(t,0.0)
r0=np.asarray(jx.integrate(net,delta_t=0.025)); ra=np.asarray(jx.integrate(mknet(),t_max=None,delta_t=0.025))
print("zero-g vs no synapses", np.abs(r0-ra).max())
# C10: set vs data_set vs trainable (branch-level sharing)
n1=mknet(); n1.cell(1).branch("all").make_trainable("HH_gNa",verbose=False); p=[{"HH_gNa":jnp.asarray([0.2,0.05])}]
a=np.asarray(jx.integrate(n1,params=p,delta_t=0.025))
n2=mknet(); n2.cell(1).branch(0).set("HH_gNa",0.2); n2.cell(1).branch(1).set("HH_gNa",0.05); b=np.asarray(jx.integrate(n2,delta_t=0.025))
n3=mknet(); ps=n3.cell(1).branch(0).data_set("HH_gNa",0.2,None); ps=n3.cell(1).branch(1).data_set("HH_gNa",0.05,ps); c=np.asarray(jx.integrate(n3,param_state=ps,delta_t=0.025))
print("C10", np.abs(a-b).max(), np.abs(a-c).max())
# vmap over params
f=lambda g: jx.integrate(n1,params=[{"HH_gNa":g}],delta_t=0.025)
vb=np.asarray(jax.vmap(f)(jnp.asarray([[0.2,0.05],[0.1,0.3]])))
print("vmap", np.abs(vb[0]-a).max(), np.abs(vb[1]-np.asarray(f(jnp.asarray([0.1,0.3])))).max())
