"""Prototype independent reference simulator built from jaxley's *displayed tables* only."""
import numpy as np
import jax.numpy as jnp
from math import pi

def _area_um2(r, l): return 2*pi*r*l

class RefSim:
    def __init__(self, module, solver="bwd_euler"):
        nd = module.nodes
        self.n = len(nd)
        self.r = nd["radius"].to_numpy(float); self.l = nd["length"].to_numpy(float)
        self.ra = nd["axial_resistivity"].to_numpy(float); self.cm = nd["capacitance"].to_numpy(float)
        self.v0 = nd["v"].to_numpy(float)
        self.branch = nd["global_branch_index"].to_numpy(int)
        self.parents = np.asarray(module.comb_parents).astype(int)
        self.channels = list(module.channels)
        self.nodes = nd
        self.edges = module.edges
        self.synapses = list(module.synapses)
        self.solver = solver
        self._build_G()

    def _build_G(self):
        n=self.n; par=self.parents
        nb=len(par)
        first=[None]*nb; last=[None]*nb
        for i,b in enumerate(self.branch):
            if first[b] is None: first[b]=i
            last[b]=i
        Rh = self.ra*(self.l/2)/(pi*self.r**2)          # ohm*cm*um/um^2 = 1e4 ohm
        bps = sorted(set(int(p) for p in par if p>=0))
        N=n+len(bps); G=np.zeros((N,N))
        def add(a,b,g): G[a,a]+=g;G[b,b]+=g;G[a,b]-=g;G[b,a]-=g
        for i in range(n-1):
            if self.branch[i]==self.branch[i+1]: add(i,i+1,1/(Rh[i]+Rh[i+1]))
        for k,p in enumerate(bps):
            add(last[p], n+k, 1/Rh[last[p]])
            for c in np.where(par==p)[0]: add(first[c], n+k, 1/Rh[first[c]])
        self.G = G*1e-4          # S
        self.nbp=len(bps)
        self.C = np.concatenate([self.cm*_area_um2(self.r,self.l)*1e-8, np.zeros(self.nbp)])  # uF

    def run(self, nsteps, dt, stim=None, recs=None):
        """stim: list of (comp, array nA). returns v trajectory (n, nsteps+1) and states."""
        n=self.n; v=self.v0.copy()
        # channel states
        cs={}
        for ch in self.channels:
            rows=np.where(self.nodes[ch._name].to_numpy(bool))[0]
            for s in ch.channel_states: cs[(ch._name,s)]={int(i):float(self.nodes[s].iloc[i]) for i in rows}
        es=self.edges
        ss={}
        for syn in self.synapses:
            for s in syn.synapse_states:
                ss[s]={int(e):float(es.loc[e,s]) for e in es.index[es["type"]==syn._name]}
        traj=[v.copy()]; A_um2=_area_um2(self.r,self.l)
        sh=[ {k:dict(d) for k,d in ss.items()} ]
        for k in range(nsteps):
            gv=np.zeros(n); ic=np.zeros(n)   # membrane current density i = gv*v + ic  (mA/cm2 from channels ->*1000 uA/cm2)
            for ch in self.channels:
                rows=np.where(self.nodes[ch._name].to_numpy(bool))[0]
                for i in rows:
                    i=int(i)
                    prm={p:jnp.asarray([float(self.nodes[p].iloc[i])]) for p in ch.channel_params}
                    for p in ["radius","length","axial_resistivity","capacitance"]: prm[p]=jnp.asarray([float(self.nodes[p].iloc[i])])
                    st={s:jnp.asarray([cs[(ch._name,s)][i]]) for s in ch.channel_states}
                    new=ch.update_states(st, dt, jnp.asarray([v[i]]), prm)
                    for s,val in new.items(): cs[(ch._name,s)][i]=float(val[0]); st[s]=val
                    I0=float(ch.compute_current(st, jnp.asarray([v[i]]), prm)[0]); I1=float(ch.compute_current(st, jnp.asarray([v[i]+1e-3]), prm)[0])
                    sl=(I1-I0)/1e-3
                    gv[i]+=sl*1000; ic[i]+=(I0-sl*v[i])*1000
            for syn in self.synapses:
                for e in es.index[es["type"]==syn._name]:
                    pre=int(es.loc[e,"pre_global_comp_index"]); post=int(es.loc[e,"post_global_comp_index"])
                    prm={p:jnp.asarray(float(es.loc[e,p])) for p in syn.synapse_params}
                    st={s:jnp.asarray(ss[s][int(e)]) for s in syn.synapse_states}
                    new=syn.update_states(st, dt, jnp.asarray(v[pre]), jnp.asarray(v[post]), prm)
                    for s,val in new.items(): ss[s][int(e)]=float(val); st[s]=val
                    I0=float(syn.compute_current(st, jnp.asarray(v[pre]), jnp.asarray(v[post]), prm)); I1=float(syn.compute_current(st, jnp.asarray(v[pre]+1e-3), jnp.asarray(v[post]+1e-3), prm))
                    d0=I0/A_um2[post]*1e5; d1=I1/A_um2[post]*1e5
                    sl=(d1-d0)/1e-3
                    gv[post]+=sl; ic[post]+=d0-sl*v[post]
            iext=np.zeros(n)
            for (c,arr) in (stim or []):
                if k<len(arr): iext[c]+=arr[k]/A_um2[c]*1e5
            # C dv/dt = -G v - A*(gv v + ic) + A*iext   [uF*mV/ms = uA*1e-3?]
            # units: density uA/cm2 * area cm2 = uA ; C[uF] dv/dt[mV/ms]=[uF*V/s]=uA  OK. G[S]*v[mV]=mA=1e3 uA
            Acm2=np.concatenate([A_um2*1e-8, np.zeros(self.nbp)])
            gvf=np.concatenate([gv,np.zeros(self.nbp)]); icf=np.concatenate([ic,np.zeros(self.nbp)]); ief=np.concatenate([iext,np.zeros(self.nbp)])
            vf=np.concatenate([v,np.zeros(self.nbp)])
            def implicit(h):
                M=np.diag(self.C)+h*(self.G*1e3+np.diag(Acm2*gvf))
                rhs=self.C*vf+h*Acm2*(ief-icf)
                return np.linalg.solve(M,rhs)[:n]
            if self.solver=="bwd_euler": v=implicit(dt)
            elif self.solver=="crank_nicolson": v=2*implicit(dt/2)-v
            traj.append(v.copy()); sh.append({k2:dict(d) for k2,d in ss.items()})
        return np.array(traj).T, cs, sh
