import sys, time, warnings, pickle, io, copy; warnings.filterwarnings("ignore")
sys.path.insert(0,"/tmp/scratch/jx")
import jax; jax.config.update("jax_enable_x64", True); jax.config.update("jax_platform_name","cpu")
import numpy as np, jax.numpy as jnp, jaxley as jx
import jaxley.channels as C
swc="""# test
1 1 0 0 0 5.0 -1
2 1 10 0 0 5.0 1
3 3 20 0 0 1.0 2
4 3 30 5 0 0.8 3
5 3 40 5 0 0.5 4
6 3 50 10 0 0.4 5
7 3 50 0 0 0.3 5
8 2 10 -10 0 0.6 2
9 2 10 -20 0 0.5 8
"""
cell=jx.read_swc(io.StringIO(swc), ncomp=2)
print(cell.comb_parents, cell.nodes[["global_branch_index","length","radius"]].round(3).values.tolist(), {k:v.tolist() for k,v in cell.groups.items()})
cell.insert(C.HH())
cell.branch(1).set_ncomp(3); cell.branch(3).set_ncomp(1)
print(cell.ncomp_per_branch, cell.nodes[["global_branch_index","length","radius"]].round(3).values.tolist(), {k:v.tolist() for k,v in cell.groups.items()})
c2=pickle.loads(pickle.dumps(cell)); c3=copy.deepcopy(cell)
c2.branch(0).set_ncomp(4)
print("pickled copy set_ncomp ok", c2.ncomp_per_branch, "orig", cell.ncomp_per_branch)
cell.branch(0).comp(0).record("v",verbose=False); cell.branch(0).comp(0).stimulate(jnp.ones(5)*0.2,verbose=False)
for vs in ["jaxley.stone","jax.sparse"]:
    try: print(vs, np.asarray(jx.integrate(cell,delta_t=0.025,voltage_solver=vs))[0,-1])
    except Exception as e: print(vs,"ERR",repr(e)[:100])
# gradient cost
cell.make_trainable("radius",verbose=False)
p=cell.get_parameters()
loss=lambda p: jnp.sum(jx.integrate(cell,params=p,delta_t=0.025,voltage_solver="jax.sparse")**2)
t=time.time(); g=jax.grad(loss)(p); print("grad time",time.time()-t, g)
