import sys, time, warnings; warnings.filterwarnings("ignore")
sys.path.insert(0,"/tmp/scratch/jx"); sys.path.insert(0,"/tmp/scratch/proto")
import jax; jax.config.update("jax_enable_x64", True); jax.config.update("jax_platform_name","cpu")
import numpy as np, jax.numpy as jnp, jaxley as jx
from jaxley.channels import HH, Leak, Na, K, Km, CaL, CaT
from jaxley.synapses import IonotropicSynapse, TestSynapse, TanhRateSynapse
from jaxley.connect import connect
from refsim import RefSim
rng=np.random.default_rng(1)
comp=jx.Compartment()
def mkcell(parents,k):
    c=jx.Cell([jx.Branch(comp,ncomp=k) for _ in parents],parents=parents); return c
net=jx.Network([mkcell([-1,0,0],2), mkcell([-1,0],2), mkcell([-1],2)])
n=len(net.nodes)
net.set("v", rng.uniform(-75,-45,n)); net.set("radius", rng.uniform(0.5,3,n)); net.set("length", rng.uniform(5,30,n)); net.set("axial_resistivity", rng.uniform(100,3000,n)); net.set("capacitance", rng.uniform(0.5,2,n))
net.cell(0).insert(HH()); net.cell(1).branch(0).insert(Na()); net.cell(1).insert(K()); net.cell(2).insert(Leak()); net.cell(2).insert(CaT()); net.cell(0).branch(1).insert(Km()); net.cell(1).branch(1).insert(CaL())
connect(net.cell(0).branch(0).comp(0), net.cell(1).branch(0).comp(1), IonotropicSynapse())
connect(net.cell(1).branch(1).comp(0), net.cell(2).branch(0).comp(0), TestSynapse())
connect(net.cell(2).branch(0).comp(1), net.cell(0).branch(2).comp(1), IonotropicSynapse())
connect(net.cell(0).branch(1).comp(1), net.cell(2).branch(0).comp(0), TanhRateSynapse())
net.set("IonotropicSynapse_gS", 5e-3); net.set("TestSynapse_gC", 3e-3); net.set("TanhRateSynapse_gS", 2e-3)
net.record("v", verbose=False)
stim=np.concatenate([np.zeros(3), 0.5*np.ones(10), np.zeros(7)])
net.cell(0).branch(0).comp(0).stimulate(jnp.asarray(stim), verbose=False)
net.cell(1).branch(1).comp(1).stimulate(jnp.asarray(-0.3*stim), verbose=False)
for solver in ["bwd_euler","crank_nicolson"]:
  for vs in ["jaxley.stone","jax.sparse"]:
    t=time.time(); out=np.asarray(jx.integrate(net, delta_t=0.025, solver=solver, voltage_solver=vs)); tj=time.time()-t
    t=time.time(); ref,_,_=RefSim(net,solver).run(len(stim),0.025,[(0,stim),(int(net.cell(1).branch(1).comp(1).nodes.index[0]),-0.3*stim)]); tr=time.time()-t
    print(solver, vs, out.shape, ref.shape, "maxabs", np.abs(out-ref).max(), "range", out.min(), out.max(), f"tj={tj:.2f} tr={tr:.2f}")
import hashlib
print("DIGEST", hashlib.sha256(out.tobytes()).hexdigest()[:16], hashlib.sha256(ref.tobytes()).hexdigest()[:16], hashlib.sha256(net.nodes.to_csv().encode()).hexdigest()[:16])
