import time, sys, warnings, os
warnings.filterwarnings("ignore")
import jax
jax.config.update("jax_enable_x64", True)
jax.config.update("jax_platform_name", "cpu")
if os.environ.get("NOOPT"): jax.config.update("jax_disable_most_optimizations", True)
import numpy as np, jax.numpy as jnp
import jaxley as jx
from jaxley.channels import HH, Leak, Na, K
from jaxley.synapses import IonotropicSynapse, TestSynapse
from jaxley.connect import connect
comp = jx.Compartment()
def build(seed):
    rng=np.random.default_rng(seed)
    nb = rng.integers(1,5)
    parents=[-1]+[int(rng.integers(0,i)) for i in range(1,nb)]
    k=int(rng.integers(1,4))
    cell = jx.Cell([jx.Branch(comp, ncomp=k) for _ in range(nb)], parents=parents)
    if rng.random()<0.7: cell.insert(HH())
    if rng.random()<0.5: cell.branch(0).insert(Na())
    cell.branch(0).comp(0).record("v", verbose=False)
    cell.branch(0).comp(0).stimulate(jnp.ones(6)*0.1, verbose=False)
    return cell
tt=[]
for s in range(12):
    t=time.time(); c=build(s); tb=time.time()-t
    t=time.time(); r=jx.integrate(c, delta_t=0.025); ti=time.time()-t
    t=time.time(); r=jx.integrate(c, delta_t=0.025, voltage_solver="jax.sparse"); ts=time.time()-t
    tt.append((tb,ti,ts))
print(np.round(np.array(tt),2)); print("mean", np.round(np.mean(tt[2:],axis=0),2))
