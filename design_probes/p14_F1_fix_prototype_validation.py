import sys, warnings; warnings.filterwarnings("ignore")
sys.path.insert(0,"/tmp/scratch/jx")
exec(open("/tmp/scratch/jx/t1.py").read().split("for parents, ncomps in")[0])
import random
worst=0; refused=0
for seed in range(60):
    rng=random.Random(seed); nb=rng.randint(2,7)
    parents=[-1]+[rng.randint(0,i-1) for i in range(1,nb)]
    ncomps=[rng.randint(1,4) for _ in range(nb)]
    cell=make(parents,ncomps,seed); ref=dense_ref(cell,0.025)
    for vs in ["jaxley.stone","jaxley.thomas"]:
        try:
            v=jx.integrate(cell,t_max=0.025,delta_t=0.025,voltage_solver=vs); e=float(np.max(np.abs(np.asarray(v[:,1])-ref))); worst=max(worst,e)
            if e>1e-9: print("BAD",seed,parents,ncomps,vs,e)
        except Exception as ex: refused+=1; print("REFUSED",seed,parents,ncomps,repr(ex)[:80])
print("worst",worst,"refused",refused)
