"""Design probe: random editing histories -> (no unexpected exception) + twin equality. Not framework code."""
import sys, time, warnings, random, traceback, io, contextlib; warnings.filterwarnings("ignore")
sys.path.insert(0,"/tmp/scratch/jx"); sys.path.insert(0,"/tmp/scratch/proto")
import jax; jax.config.update("jax_enable_x64", True); jax.config.update("jax_platform_name","cpu")
import numpy as np, jax.numpy as jnp, jaxley as jx
import jaxley.channels as C, jaxley.synapses as S
from jaxley.connect import connect
from t10 import twin_from_tables
CH=[C.HH,C.Leak,C.Na,C.K,C.Km,C.CaL,C.CaT]; SY=[S.IonotropicSynapse,S.TestSynapse,S.TanhRateSynapse]
def build(rng):
    comp=jx.Compartment()
    if rng.random()<0.5:
        nb=rng.randint(1,4); parents=[-1]+[rng.randint(0,i-1) for i in range(1,nb)]
        return jx.Cell([jx.Branch(comp,ncomp=rng.randint(1,3)) for _ in range(nb)],parents=parents)
    k=rng.randint(1,3); cells=[]
    for _ in range(rng.randint(2,3)):
        nb=rng.randint(1,3); parents=[-1]+[rng.randint(0,i-1) for i in range(1,nb)]
        cells.append(jx.Cell([jx.Branch(comp,ncomp=k) for _ in range(nb)],parents=parents))
    return jx.Network(cells)
def rview(m,rng):
    n=len(m.nodes)
    r=rng.random()
    if r<0.2: return m
    if r<0.5: return m.select(nodes=sorted(rng.sample(range(n),rng.randint(1,n))))
    v=m
    if isinstance(m,jx.Network) and rng.random()<0.8: v=v.cell(rng.randrange(m.shape[0]))
    if rng.random()<0.7: v=v.branch(rng.randrange(len(v.nodes.local_branch_index.unique())))
    if rng.random()<0.5: v=v.comp(rng.randrange(len(v.nodes.local_comp_index.unique())))
    return v
def one(seed):
    rng=random.Random(seed); m=build(rng); log=[]
    nprng=np.random.default_rng(seed)
    m.set("v", nprng.uniform(-75,-45,len(m.nodes)))
    for step in range(rng.randint(3,14)):
        op=rng.choice(["set","insert","insert","delete_channel","record","record","stimulate","clamp","delete_recordings","delete_stimuli","delete_clamps","group","connect","connect","init_states","make_trainable","delete_trainables","set_ncomp"])
        try:
            with contextlib.redirect_stdout(io.StringIO()):
                v=rview(m,rng)
                if op=="set":
                    key=rng.choice([c for c in m.nodes.columns if not c.endswith("index") and c not in ["controlled_by_param","x","y","z"] and m.nodes[c].dtype!=bool and m.nodes[c].dtype!=object])
                    val=rng.uniform(0.3,1.0) if key not in ("v",) and not key.startswith("e") and key!="vt" else rng.uniform(-70,-50)
                    if key in ("length",): val=rng.uniform(5,30)
                    if key=="axial_resistivity": val=rng.uniform(100,3000)
                    if "_g" in key: val=rng.uniform(1e-5,0.1)
                    if key.endswith("taumax"): val=rng.uniform(500,4000)
                    if key.endswith("_vx"): val=rng.uniform(0,4)
                    v.set(key,val); log.append((op,key))
                elif op=="insert": ch=rng.choice(CH); v.insert(ch()); log.append((op,ch.__name__))
                elif op=="delete_channel":
                    if m.channels: ch=rng.choice(m.channels); v.delete_channel(ch); log.append((op,ch._name))
                elif op=="record":
                    cs,es=m._get_state_names(); st=rng.choice(cs if (not es or rng.random()<0.7) else es)
                    if st=="i": st="v"
                    (v if st in cs else m).record(st); log.append((op,st))
                elif op=="stimulate": v.stimulate(jnp.asarray(nprng.uniform(-0.5,1,8))); log.append((op,))
                elif op=="clamp":
                    cs,es=m._get_state_names(); st=rng.choice([s for s in cs if s!="i"])
                    val=nprng.uniform(0,1,8) if st!="v" else nprng.uniform(-70,-40,8)
                    v.clamp(st,jnp.asarray(val)); log.append((op,st))
                elif op=="delete_recordings": v.delete_recordings(); log.append((op,))
                elif op=="delete_stimuli": v.delete_stimuli(); log.append((op,))
                elif op=="delete_clamps": v.delete_clamps(); log.append((op,))
                elif op=="group": v.add_to_group(rng.choice(["g1","g2"])); log.append((op,))
                elif op=="connect" and isinstance(m,jx.Network):
                    n=len(m.nodes); a,b=rng.randrange(n),rng.randrange(n); sy=rng.choice(SY)
                    connect(m.select(nodes=[a]),m.select(nodes=[b]),sy()); log.append((op,a,b,sy.__name__))
                elif op=="init_states": m.init_states(); log.append((op,))
                elif op=="make_trainable":
                    key=rng.choice(["radius","length","v"]+[k for c in m.channels for k in c.channel_params]); v.make_trainable(key,verbose=False); log.append((op,key))
                elif op=="delete_trainables": m.delete_trainables(); log.append((op,))
                elif op=="set_ncomp" and isinstance(m,jx.Cell) and m.total_nbranches>1 and not len(m.recordings) and not m.externals and not m.trainable_params:
                    b=rng.randrange(m.total_nbranches); k=rng.randint(1,4); m.branch(b).set_ncomp(k); log.append((op,b,k))
        except Exception as e:
            log.append((op,"RAISED",type(e).__name__,str(e)[:60]))
    # epilogue
    try:
        with contextlib.redirect_stdout(io.StringIO()):
            if not len(m.recordings): m.select(nodes=[0]).record("v")
            kw={} if m.externals else {"t_max":0.2}
            # clamp arrays and stimuli same length 8 -> ok
            p=m.get_parameters()
            out=np.asarray(jx.integrate(m,params=p,delta_t=0.025,voltage_solver="jax.sparse",**kw))
    except Exception as e:
        tb=traceback.extract_tb(e.__traceback__)[-1]
        return ("INTEGRATE-ERR",type(e).__name__,str(e)[:80],f"{tb.filename.split('/')[-1]}:{tb.lineno}",log)
    if not np.all(np.isfinite(out)): return ("NONFINITE",log)
    if m.trainable_params: return ("ok-trainable",log)
    try:
        with contextlib.redirect_stdout(io.StringIO()):
            tw=twin_from_tables(m); o2=np.asarray(jx.integrate(tw,delta_t=0.025,voltage_solver="jax.sparse",**kw))
    except Exception as e:
        tb=traceback.extract_tb(e.__traceback__)[-1]
        return ("TWIN-ERR",type(e).__name__,str(e)[:80],f"{tb.filename.split('/')[-1]}:{tb.lineno}",log)
    if out.shape!=o2.shape or np.abs(out-o2).max()>1e-9: return ("TWIN-DIFF",out.shape,o2.shape,log)
    return ("ok",log)
if __name__=="__main__":
    a,b=int(sys.argv[1]),int(sys.argv[2]); t=time.time(); res={}
    for s in range(a,b):
        r=one(s); res.setdefault(r[0],[]).append((s,)+r[1:])
    print("time per run",(time.time()-t)/(b-a))
    for k,v in res.items():
        print(k,len(v))
        if not k.startswith("ok"):
            for x in v[:6]: print("   ",x)
