import sys, time, warnings, random; warnings.filterwarnings("ignore")
sys.path.insert(0,"/tmp/scratch/jx")
import jax; jax.config.update("jax_enable_x64", True); jax.config.update("jax_platform_name","cpu")
import numpy as np, jax.numpy as jnp, jaxley as jx
from jaxley.synapses import IonotropicSynapse, TestSynapse
from jaxley.connect import connect

class RV:  # reference view: ordered node ids, edge ids, scope
    def __init__(s, base, nodes, edges, scope="local"): s.b=base; s.N=list(nodes); s.E=list(edges); s.scope=scope
    def col(s, key):
        b=s.b
        g={"cell":b["cell"],"branch":b["branch"],"comp":list(range(len(b["cell"])))}
        if s.scope=="global": return {n:g[key][n] for n in s.N}
        # dense rank within parent over nodes in view
        out={}
        if key=="cell":
            u=sorted(set(g["cell"][n] for n in s.N)); return {n:u.index(g["cell"][n]) for n in s.N}
        if key=="branch":
            for c in set(g["cell"][n] for n in s.N):
                u=sorted(set(g["branch"][n] for n in s.N if g["cell"][n]==c))
                for n in s.N:
                    if g["cell"][n]==c: out[n]=u.index(g["branch"][n])
            return out
        for br in set(g["branch"][n] for n in s.N):
            u=sorted(n for n in s.N if g["branch"][n]==br)
            for n in u: out[n]=u.index(n)
        return out
    def at(s,key,idx):
        c=s.col(key)
        if idx=="all": idx=set(c.values())
        N=[n for n in s.N if c[n] in set(idx)]
        E=[e for e in s.E if s.b["pre"][e] in N and s.b["post"][e] in N]
        return RV(s.b,N,E,s.scope)
    def sc(s,scope): return RV(s.b,s.N,s.E,scope)

def build(rng):
    comp=jx.Compartment(); cells=[]
    ncells=rng.randint(1,3)
    layouts=[]
    for _ in range(ncells):
        nb=rng.randint(1,4); parents=[-1]+[rng.randint(0,i-1) for i in range(1,nb)]
        nc=[rng.randint(1,3) for _ in range(nb)]
        cells.append(jx.Cell([jx.Branch(comp,ncomp=k) for k in nc],parents=parents))
    net=jx.Network(cells)
    n=len(net.nodes)
    for _ in range(rng.randint(0,4)):
        a,b=rng.randrange(n),rng.randrange(n)
        connect(net.select(nodes=[a]), net.select(nodes=[b]), rng.choice([IonotropicSynapse(),TestSynapse()]))
    base={"cell":net.nodes.global_cell_index.tolist(),"branch":net.nodes.global_branch_index.tolist(),
          "pre":net.edges.pre_global_comp_index.astype(int).tolist() if len(net.edges) else [], "post":net.edges.post_global_comp_index.astype(int).tolist() if len(net.edges) else []}
    return net, base

def ridx(rng, size, scope_is_global=False):
    k=rng.random()
    if k<0.3: return rng.randrange(size)
    if k<0.6: return sorted(rng.sample(range(size), rng.randint(1,size)))
    if k<0.7: return "all"
    if k<0.8: return range(0, rng.randint(1,size))
    if k<0.9: return slice(0, rng.randint(1,size))
    if scope_is_global: return rng.randrange(size)
    m=[rng.random()<0.5 for _ in range(size)]
    if not any(m): m[0]=True
    return np.array(m)
def norm(idx,size):
    if isinstance(idx,str): return "all"
    if isinstance(idx,int): return [idx]
    if isinstance(idx,slice): return list(range(size))[idx]  # NOTE: jaxley uses arange(len(base.nodes))
    if isinstance(idx,np.ndarray) and idx.dtype==bool: return list(np.arange(len(idx))[idx])
    return list(idx)

bad=0; tot=0; errs={}
for seed in range(150):
    rng=random.Random(seed)
    net,base=build(rng)
    for t in range(6):
        v=net; r=RV(base, range(len(base["cell"])), range(len(base["pre"])))
        desc=[]
        try:
            for key in ["cell","branch","comp"]:
                if rng.random()<0.25:
                    s=rng.choice(["global","local"]); v=v.scope(s); r=r.sc(s); desc.append(("scope",s))
                if rng.random()<0.75:
                    c=r.col(key); size=max(c.values())+1
                    idx=ridx(rng,size,r.scope=='global'); desc.append((key,idx if not isinstance(idx,np.ndarray) else idx.tolist()))
                    r2=r.at(key, norm(idx,size))
                    if not r2.N: break
                    v=getattr(v,key)(idx); r=r2
            tot+=1
            got=(v.nodes.index.tolist(), v.edges.index.tolist() if len(v.edges) else [])
            exp=(r.N, r.E)
            lc={k:r.sc("local").col(k) for k in ["cell","branch","comp"]}
            gl=[v.nodes[f"local_{k}_index"].tolist() for k in ["cell","branch","comp"]]
            el=[[lc[k][n] for n in r.N] for k in ["cell","branch","comp"]]
            if got!=exp or gl!=el:
                bad+=1
                if bad<6: print("MISMATCH seed",seed,desc,"got",got,"exp",exp, gl, el, "shape", net.shape, base["branch"])
        except Exception as e:
            k=repr(e)[:80]; errs[k]=errs.get(k,0)+1
            if errs[k]<2: print("EXC",seed,desc,k)
print("tot",tot,"bad",bad,"errs",errs)
