import time, sys, warnings
import jax
jax.config.update("jax_enable_x64", True)
jax.config.update("jax_platform_name", "cpu")
import numpy as np, jax.numpy as jnp
import jaxley as jx
from jaxley.channels import HH, Leak, Na, K, Km, CaL, CaT
from jaxley.synapses import IonotropicSynapse, TestSynapse, TanhRateSynapse
from jaxley.connect import fully_connect, sparse_connect, connectivity_matrix_connect, connect

def net3():
    comp = jx.Compartment()
    cell = jx.Cell([jx.Branch(comp, ncomp=2)], parents=[-1])
    return jx.Network([cell for _ in range(3)])

print("== F5: recording synaptic state with two interleaved types")
net = net3()
net.set("v", np.array([-70,-70,-20,-20,-50,-50.]))
connect(net.cell(0).branch(0).comp(0), net.cell(1).branch(0).comp(0), IonotropicSynapse())
connect(net.cell(1).branch(0).comp(0), net.cell(2).branch(0).comp(0), TestSynapse())
connect(net.cell(2).branch(0).comp(0), net.cell(0).branch(0).comp(0), IonotropicSynapse())
print(net.edges[["global_edge_index","type","type_ind","pre_global_comp_index","post_global_comp_index"]])
net.record("IonotropicSynapse_s", verbose=False)
print(net.recordings)
try:
    r = jx.integrate(net, t_max=0.1)
    print(r[:, :3])
except Exception as e:
    print("ERR", repr(e)[:200])

print("== F6: checkpoint product > nsteps, return_states")
cell = jx.Cell(); cell.insert(HH()); cell.record("v", verbose=False)
cell.stimulate(jx.step_current(0.0, 1.0, 0.1, 0.025, 0.2), verbose=False)
r1, s1 = jx.integrate(cell, return_states=True)
r2, s2 = jx.integrate(cell, return_states=True, checkpoint_lengths=[4,4])
print(r1.shape, r2.shape, float(jnp.abs(r1-r2).max()), float(s1["v"][0]), float(s2["v"][0]), float(r1[0,-1]))

print("== F7: fully_connect n_pre != n_post")
comp = jx.Compartment()
cell = jx.Cell([jx.Branch(comp, ncomp=2)], parents=[-1])
net = jx.Network([cell for _ in range(5)])
fully_connect(net.cell([0,1]), net.cell([2,3,4]), IonotropicSynapse())
e = net.edges
cellof = net.nodes.global_cell_index.to_numpy()
print(sorted(zip(cellof[e.pre_global_comp_index.to_numpy().astype(int)], cellof[e.post_global_comp_index.to_numpy().astype(int)])))

print("== F8: sparse_connect one draw")
import numpy.random as npr
net = jx.Network([cell for _ in range(4)])
orig = np.random.binomial
np.random.binomial = lambda n,p: 1
try:
    sparse_connect(net.cell([0,1]), net.cell([2,3]), IonotropicSynapse(), 0.5)
    print("ok", len(net.edges))
except Exception as ex:
    print("ERR", repr(ex)[:200])
np.random.binomial = lambda n,p: 0
try:
    sparse_connect(net.cell([0,1]), net.cell([2,3]), IonotropicSynapse(), 0.5)
    print("ok0", len(net.edges))
except Exception as ex:
    print("ERR0", repr(ex)[:200])
np.random.binomial = orig

print("== F9: groups stale after set_ncomp")
cell = jx.Cell([jx.Branch(comp, ncomp=2) for _ in range(3)], parents=[-1,0,0])
cell.branch(2).add_to_group("tip")
print(cell.groups, cell.tip.nodes.global_branch_index.unique())
cell.branch(0).set_ncomp(4)
print(cell.groups, cell.tip.nodes.global_branch_index.unique())

print("== F10: delete channel that shares param column")
c = jx.Cell()
c.insert(Na()); c.insert(K())
c.delete_channel(Na())
print(c.nodes.columns.tolist())
c.record("v", verbose=False)
try:
    print(jx.integrate(c, t_max=0.1)[:, -1])
except Exception as ex:
    print("ERR", repr(ex)[:300])
