import sys, time, warnings; warnings.filterwarnings("ignore")
sys.path.insert(0,"/tmp/scratch/jx")
import jax; jax.config.update("jax_enable_x64", True); jax.config.update("jax_platform_name","cpu")
import numpy as np, jax.numpy as jnp, jaxley as jx
from math import pi
from jaxley.channels import HH
c=jx.Compartment(); c.set("radius",2.0); c.set("length",7.0); c.set("capacitance",1.5)
c.record("v",verbose=False)
stim=np.array([0.,1.,0.,0.,2.,0.])
c.stimulate(jnp.asarray(stim),verbose=False)
v=np.asarray(jx.integrate(c,delta_t=0.1))[0]
A=2*pi*2*7*1e-8; C=1.5*A  # uF
print("dv per step", np.diff(v), "expected", stim*1e-3*0.1/C)   # nA=1e-3 uA ; uA*ms/uF = mV
for tmax in [0.25,0.3,0.35,0.6,0.9]:
    v=np.asarray(jx.integrate(c,delta_t=0.1,t_max=tmax))[0]; print("t_max",tmax,"cols",v.shape, "int(tmax//dt+1)=",int(tmax//0.1+1))
# clamp alignment
c2=jx.Compartment(); c2.insert(HH()); c2.record("v",verbose=False); c2.record("HH_m",verbose=False)
c2.clamp("v", jnp.asarray([-60.,-50.,-40.5,-30.]),verbose=False)
print(np.asarray(jx.integrate(c2,delta_t=0.025)))
# two stimuli on one comp add
c.stimulate(jnp.asarray(stim),verbose=False)
v2=np.asarray(jx.integrate(c,delta_t=0.1))[0]; print("two stim", np.diff(v2))
print(c.externals, c.external_inds)
# abort injection and purity
ji=sys.modules["jaxley.integrate"]
orig=ji.nested_checkpoint_scan
def boom(*a,**k): raise RuntimeError("SIM-ABORT")
ji.nested_checkpoint_scan=boom
import copy
snap=c.nodes.copy()
try: jx.integrate(c,delta_t=0.1)
except RuntimeError as e: print("aborted", e)
ji.nested_checkpoint_scan=orig
print("nodes unchanged", snap.equals(c.nodes), np.array_equal(np.asarray(jx.integrate(c,delta_t=0.1))[0], v2))
# vmap over data_stimulate
def sim(amp):
    ds=c2.data_stimulate(amp*jnp.ones(4),None)
    return jx.integrate(c2, data_stimuli=ds, delta_t=0.025)
c2.delete_clamps()
print(jax.vmap(sim)(jnp.asarray([0.1,0.2])).shape, np.abs(np.asarray(jax.vmap(sim)(jnp.asarray([0.1,0.2]))[1])-np.asarray(sim(0.2))).max())
